//go:build verif && verif_c16

package tunnel

import (
	"context"
	"fmt"
	"net"
	"sort"
	"strings"
	"sync/atomic"
	"testing"
	"time"

	"tunnox-core/internal/stream"
	vk "tunnox-core/internal/verifkit"
)

// C16 (server bridge, late join) — the session manager's bridge lifecycle is
//
//	defer bridge.Close(); bridge.Start(); delete(tunnelBridges, id)
//
// and the bridge stays reachable through the map until that delete. A bridge closed from
// outside (kick / management API / shutdown / parent-context cancel) makes Start() return;
// a target (or a migrated source) connection that joins in the window before the map
// entry is removed is handed to the already-closed bridge by SetTargetConnection /
// SetSourceConnection. After the LAST Close has returned, every connection that was ever
// handed to the bridge must be closed (its peer's pending Read ends), and nothing of the
// bridge may still be running.
//
// Script per trial: [K1 first closers ∥ optional parent cancel ∥ optional late join racing
// them] -> late join(s) after the first Close returned -> K2 final closers (the deferred
// Close of the lifecycle goroutine among them).

type c16CountConn struct {
	net.Conn
	closes atomic.Int32
}

func (c *c16CountConn) Close() error {
	c.closes.Add(1)
	return c.Conn.Close()
}

type c16Handed struct {
	what   string
	closes func() int32
	far    net.Conn
}

func TestVerifC16BridgeLateJoin(t *testing.T) {
	vk.Quiet()
	run := vk.Start(t, "C16", "bridge-late-join")
	defer run.Finish()
	run.Rule("trial = real Bridge (source attached at creation, lifecycle goroutine 'defer Close; Start') x first close by K1 in {1,2,4} Close callers (+ parent cancel) x late joins in {target, source, both} handed over after the first Close returned or racing it x with/without StreamProcessor on the late connection x K2 in {1,2,4} final closers; distinct = (joins, timing, K1, K2, streams)")
	r := run.Rand("trials")
	n := run.Pick(2000, 20000)
	batch := 250
	run.Floor("late_joins_after_first_close", 100)
	run.Floor("late_conns_closed_by_final_close", 100)
	scope := []string{"tunnox-core/internal/protocol/session/tunnel", "tunnox-core/internal/stream"}
	for done := 0; done < n && run.Violations() < 20 && run.Counter("leak_violations") < 3 && run.Counter("conns_left_open") < 10; done += batch {
		snap := vk.SnapshotGoroutines()
		var cleanup []func()
		for b := 0; b < batch && done+b < n && run.Counter("conns_left_open") < 10; b++ {
			trial := done + b
			k1 := []int{1, 2, 4}[r.Intn(3)]
			k2 := []int{1, 2, 4}[r.Intn(3)]
			joins := []string{"target", "target", "source", "both"}[r.Intn(4)]
			racing := r.Intn(3) == 0 // late join races the first Close instead of following it
			withStream := r.Intn(2) == 0
			withCancel := r.Intn(3) == 0
			targetBefore := r.Intn(4) == 0 // a first target was already attached (bridge was running)
			if racing {
				// Set*Connection REPLACES a connection that is still attached without closing
				// it (the replaced one belongs to whoever replaces it); a join that races the
				// first Close is therefore only scripted where nothing is replaced
				joins, targetBefore = "target", false
			}
			spins := make([]int, 8)
			for i := range spins {
				if r.Intn(2) == 0 {
					spins[i] = r.Intn(500)
				}
			}
			desc := map[string]any{"trial": trial, "K1": k1, "K2": k2, "late_joins": joins, "join_races_first_close": racing,
				"stream_on_late_conn": withStream, "parent_cancel": withCancel, "target_attached_before": targetBefore, "spins": spins}
			run.Case("C16:bridge|late-join", desc)
			run.Eval(1)
			pctx, cancel := context.WithCancel(context.Background())
			var handed []c16Handed
			newConn := func(what string) (*c16CountConn, net.Conn) {
				near, far := net.Pipe()
				cc := &c16CountConn{Conn: near}
				cleanup = append(cleanup, func() { far.Close(); near.Close() })
				handed = append(handed, c16Handed{what: what, closes: cc.closes.Load, far: far})
				return cc, far
			}
			newTunnelConn := func(what string) *c16TunnelConn {
				cc, _ := newConn(what)
				tc := &c16TunnelConn{conn: cc}
				if withStream {
					tc.st = stream.NewStreamProcessor(cc, cc, pctx)
				}
				return tc
			}
			src, _ := newConn("source-at-creation")
			br := NewBridge(pctx, &BridgeConfig{TunnelID: fmt.Sprintf("c16l-%d", trial), MappingID: "c16-map", ClientID: 7,
				SourceConn: src, SourceStream: stream.NewStreamProcessor(src, src, pctx), CloudControl: &c16Cloud{}})
			if targetBefore {
				br.SetTargetConnection(newTunnelConn("target-before-close"))
			}
			// lifecycle goroutine: its deferred Close is one of the final closers
			startReturned := make(chan struct{})
			finalGo := make(chan struct{})
			lifecycleDone := make(chan struct{})
			go func() {
				defer close(lifecycleDone)
				defer func() {
					<-finalGo
					_ = br.Close()
				}()
				_ = br.Start()
				close(startReturned)
			}()
			join := func() {
				if joins == "target" || joins == "both" {
					br.SetTargetConnection(newTunnelConn("late-target"))
				}
				if joins == "source" || joins == "both" {
					br.SetSourceConnection(newTunnelConn("late-source"))
				}
			}
			hung := false
			// ---- phase 1: first close -----------------------------------------------------
			fns := make([]func(), 0, k1+2)
			for i := 0; i < k1; i++ {
				fns = append(fns, func() { _ = br.Close() })
			}
			if withCancel {
				fns = append(fns, cancel)
			}
			if racing {
				fns = append(fns, join)
			}
			_, ok := c16RunRace(fns, k1, spins[:len(fns)])
			if ok {
				select {
				case <-startReturned:
				case <-time.After(2 * time.Second):
					// Start() has not returned although every Close call has. Decide
					// logically (DESIGN 2.5b): the harness holds all far ends and sends
					// nothing, so if three dumps 100 ms apart show the same bridge goroutines
					// parked in the same frames, nothing can ever change -> hang.
					if fp, stable := c16ParkedFingerprint(snap, scope); stable {
						open := []string{}
						for _, h := range handed {
							if h.closes() == 0 {
								open = append(open, h.what)
							}
						}
						run.Violation("C16:bridge|late-join|start-never-returns-after-close|join="+map[bool]string{true: "racing", false: "after"}[racing],
							map[string]any{"case": desc, "parked": fp, "handed_conns_never_closed": open})
						run.Count("leak_violations", 1)
					} else {
						run.Count("watchdog", 1)
					}
					for _, h := range handed {
						h.far.Close()
					}
					ok = false
					hung = true
				}
			}
			// ---- phase 2: late join after the first Close returned ---------------------------
			if ok && !racing {
				join()
				run.Count("late_joins_after_first_close", 1)
			}
			// ---- phase 3: final close (lifecycle's deferred Close + K2-1 others) -------------
			if ok {
				fns = fns[:0]
				fns = append(fns, func() { close(finalGo); <-lifecycleDone })
				for i := 1; i < k2; i++ {
					fns = append(fns, func() { _ = br.Close() })
				}
				_, ok = c16RunRace(fns, k2, spins[:len(fns)])
			} else {
				close(finalGo)
			}
			cancel()
			if !ok {
				if !hung {
					run.Count("watchdog", 1)
				}
				continue
			}
			jt := "after"
			if racing {
				jt = "racing"
			}
			run.Distinct(fmt.Sprintf("%s|%s|K1=%d|K2=%d|stream=%v|cancel=%v|tb=%v", joins, jt, k1, k2, withStream, withCancel, targetBefore))
			// ---- oracle: everything ever handed to the bridge is closed ---------------------
			for _, h := range handed {
				if h.closes() >= 1 {
					if h.what == "late-target" || h.what == "late-source" {
						run.Count("late_conns_closed_by_final_close", 1)
					}
					continue
				}
				run.Count("conns_left_open", 1) // the test stops after 10 (each one costs a 200 ms peer read)
				// corroborate from the peer's side: a pending Read must end
				h.far.SetReadDeadline(time.Now().Add(200 * time.Millisecond))
				_, err := h.far.Read(make([]byte, 1))
				ne, isNet := err.(net.Error)
				run.Violation("C16:bridge|conn-left-open-after-last-close|"+h.what+"|join="+jt,
					map[string]any{"case": desc, "conn": h.what, "close_calls": h.closes(), "peer_read_still_blocked": isNet && ne.Timeout()})
			}
			if !br.IsClosed() {
				run.Violation("C16:bridge|late-join|not-closed-after-close", map[string]any{"case": desc})
			}
		}
		if l := snap.Leaked(scope, nil, 2*time.Second); len(l) > 0 {
			run.Violation("C16:bridge|late-join|goroutine-left|"+c16LeakFn(l[0]), map[string]any{"batch_start": done, "leaked": len(l), "frames": vk.FrameSummary(l), "stack": l[0].Stack})
			run.Count("leak_violations", 1)
		}
		for _, f := range cleanup {
			f()
		}
		run.Count("leak_checks", 1)
	}
}

// c16ParkedFingerprint takes three goroutine dumps 100 ms apart and reports whether the
// goroutines created since snap with a frame in scope are the same ones, in the same
// state and innermost frame, every time.
func c16ParkedFingerprint(snap vk.LeakSnapshot, scope []string) ([]string, bool) {
	var prev []string
	for round := 0; round < 3; round++ {
		if round > 0 {
			time.Sleep(100 * time.Millisecond)
		}
		var cur []string
		startParked := false
		for _, g := range vk.Goroutines() {
			if _, old := snap[g.ID]; old {
				continue
			}
			in := false
			for _, sc := range scope {
				if strings.Contains(g.Stack, sc) {
					in = true
				}
			}
			if !in {
				continue
			}
			// anything of this trial (harness racers included) still running => not a hang
			if strings.HasPrefix(g.State, "running") || strings.HasPrefix(g.State, "runnable") {
				return nil, false
			}
			if strings.Contains(g.Stack, "(*Bridge).Start(") {
				startParked = true
			}
			// the harness's own waiting goroutines are in the package too: fingerprint product frames only
			if strings.Contains(g.Top, "c16") || strings.Contains(g.Top, "VerifC16") {
				continue
			}
			cur = append(cur, g.ID+" "+strings.SplitN(g.State, ",", 2)[0]+" "+g.Top)
		}
		sort.Strings(cur)
		// a Bridge.Start call must be among the parked ones (the periodic reporter of a live
		// bridge is always parked and proves nothing)
		if !startParked || (round > 0 && strings.Join(cur, ";") != strings.Join(prev, ";")) {
			return nil, false
		}
		prev = cur
	}
	return prev, len(prev) > 0
}
