//go:build verif && verif_c16

package tunnel

import (
	"context"
	"fmt"
	"net"
	"runtime"
	"strings"
	"sync"
	"sync/atomic"
	"testing"
	"time"

	"tunnox-core/internal/cloud/models"
	"tunnox-core/internal/cloud/stats"
	"tunnox-core/internal/stream"
	vk "tunnox-core/internal/verifkit"
)

// C16 (server bridge part) — Bridge.Close ∥ copy loops ending ∥ periodicTrafficReport:
// the traffic the bridge moved is reported to cloud control exactly once
// (Σ reported deltas == bytes the far endpoints received, per direction), the target
// connection is closed exactly once, nothing panics afterwards, no goroutine remains.
//
// Generator: real Bridge + real StreamProcessors over net.Pipe endpoints, a counting
// fake CloudControlAPI whose GetPortMapping contains a seeded number of yields (widens
// the report window without a clock), seeded transfers in both directions (0 B … 2.5 MB,
// so that both the "counter flushed at 1 MB" and the "counter flushed at loop exit"
// branches occur), then K in {2,4,12} Bridge.Close callers from a spin barrier racing
// a completion path: none / source EOF / both EOF / parent-context cancel / mid-transfer.

type c16Race struct {
	ready   atomic.Int32
	flag    atomic.Uint32
	inside  atomic.Int32
	maxIn   atomic.Int32
	timeout atomic.Int32
}

var c16Sink atomic.Uint64

func c16Spin(n int) {
	for i := 0; i < n; i++ {
		c16Sink.Add(1)
	}
}

func c16RunRace(fns []func(), nCount int, spins []int) (maxInside int, ok bool) {
	maxInside, ok, _ = c16RunRaceHang(fns, nCount, spins, nil)
	return
}

// c16RunRaceHang: as c16RunRace; if the racers have not all returned after 2 s, hang() (a
// logical parked-forever classifier) is consulted: true ends the wait with hung=true.
func c16RunRaceHang(fns []func(), nCount int, spins []int, hang func() bool) (maxInside int, ok bool, hung bool) {
	r := &c16Race{}
	var wg sync.WaitGroup
	k := len(fns)
	wg.Add(k)
	for i := 0; i < k; i++ {
		go func(i int) {
			defer wg.Done()
			r.ready.Add(1)
			n := 0
			for r.flag.Load() == 0 {
				n++
				if n > 1<<16 {
					runtime.Gosched()
				}
				if n > 1<<26 {
					r.timeout.Add(1)
					break
				}
			}
			c16Spin(spins[i])
			if i < nCount {
				in := r.inside.Add(1)
				for {
					m := r.maxIn.Load()
					if in <= m || r.maxIn.CompareAndSwap(m, in) {
						break
					}
				}
			}
			fns[i]()
			if i < nCount {
				r.inside.Add(-1)
			}
		}(i)
	}
	deadline := time.Now().Add(10 * time.Second)
	for int(r.ready.Load()) < k {
		runtime.Gosched()
		if time.Now().After(deadline) {
			r.timeout.Add(1)
			break
		}
	}
	r.flag.Store(1)
	done := make(chan struct{})
	go func() { wg.Wait(); close(done) }()
	select {
	case <-done:
		return int(r.maxIn.Load()), r.timeout.Load() == 0, false
	case <-time.After(2 * time.Second):
	}
	if hang != nil && hang() {
		return int(r.maxIn.Load()), false, true
	}
	select {
	case <-done:
		return int(r.maxIn.Load()), r.timeout.Load() == 0, false
	case <-time.After(18 * time.Second):
		return int(r.maxIn.Load()), false, false
	}
}

// ---- counting fake of the cloud-control interface the bridge reports to -----------

type c16Cloud struct {
	baseSent, baseRecv int64 // totals the mapping "already has"; every Get hands these out
	yields             int   // scheduler yields inside GetPortMapping
	gets, updates      atomic.Int64
	sumSent, sumRecv   atomic.Int64 // Σ (reported total − handed-out total) = Σ reported deltas
	inGet, maxInGet    atomic.Int32
}

func (c *c16Cloud) GetPortMapping(mappingID string) (*models.PortMapping, error) {
	c.gets.Add(1)
	in := c.inGet.Add(1)
	for {
		m := c.maxInGet.Load()
		if in <= m || c.maxInGet.CompareAndSwap(m, in) {
			break
		}
	}
	for i := 0; i < c.yields; i++ {
		runtime.Gosched()
	}
	c.inGet.Add(-1)
	return &models.PortMapping{ID: mappingID, TrafficStats: models.TrafficStats{BytesSent: c.baseSent, BytesReceived: c.baseRecv}}, nil
}

func (c *c16Cloud) UpdatePortMappingStats(mappingID string, ts *stats.TrafficStats) error {
	c.updates.Add(1)
	c.sumSent.Add(ts.BytesSent - c.baseSent)
	c.sumRecv.Add(ts.BytesReceived - c.baseRecv)
	return nil
}

func (c *c16Cloud) GetClientPortMappings(clientID int64) ([]*models.PortMapping, error) {
	return nil, nil
}

// ---- target tunnel connection double ---------------------------------------------------

type c16TunnelConn struct {
	conn   net.Conn
	st     stream.PackageStreamer
	closes atomic.Int32
}

func (c *c16TunnelConn) GetConnectionID() string           { return "c16-target" }
func (c *c16TunnelConn) GetClientID() int64                { return 7 }
func (c *c16TunnelConn) GetMappingID() string              { return "c16-map" }
func (c *c16TunnelConn) GetTunnelID() string               { return "c16-tun" }
func (c *c16TunnelConn) GetStream() stream.PackageStreamer { return c.st }
func (c *c16TunnelConn) GetNetConn() net.Conn              { return c.conn }
func (c *c16TunnelConn) IsClosed() bool                    { return c.closes.Load() > 0 }
func (c *c16TunnelConn) Close() error {
	c.closes.Add(1)
	return c.conn.Close()
}

// c16Drain reads from conn until it fails and adds what it received to got.
func c16Drain(conn net.Conn, got *atomic.Int64, wg *sync.WaitGroup) {
	defer wg.Done()
	buf := make([]byte, 64*1024)
	for {
		n, err := conn.Read(buf)
		got.Add(int64(n))
		if err != nil {
			return
		}
	}
}

// c16Feed writes total bytes to conn in chunks; stops on error.
func c16Feed(conn net.Conn, total int, chunk int, wg *sync.WaitGroup, fed *atomic.Int64) {
	defer wg.Done()
	buf := make([]byte, chunk)
	for total > 0 {
		n := chunk
		if n > total {
			n = total
		}
		w, err := conn.Write(buf[:n])
		fed.Add(int64(w))
		total -= w
		if err != nil {
			return
		}
	}
}

// sizes fed AFTER the 1-byte probe that proves both copy loops are running
var c16Sizes = []int{0, 1, 4096, 100000, 1<<20 + 17, 5 << 19}

func TestVerifC16Bridge(t *testing.T) {
	c16BridgeMain(t)
}

func c16BridgeMain(t *testing.T) {
	vk.Quiet()
	run := vk.Start(t, "C16", "bridge")
	defer run.Finish()
	run.Rule("trial = real Bridge over net.Pipe endpoints with counting cloud-control fake x transfer sizes per direction in {0,1,4K,100K,1M+17,2.5M} x path in {none, source-eof, both-eof, parent-cancel, mid-transfer} x K in {2,4,12} Close callers from a spin barrier x yields inside GetPortMapping; distinct = (path,K,size classes,overlap observed)")
	r := run.Rand("trials")
	n := run.Pick(400, 4000)
	paths := []string{"none", "source-eof", "source-eof", "both-eof", "parent-cancel", "mid-transfer", "cancel-while-trickling"}
	ks := []int{2, 4, 12}
	run.Floor("overlap_runs", 100)
	run.Floor("runs_with_traffic_reported", 100)
	run.Floor("trickle_runs_ctx_exit_with_pending_batch", 10)
	scope := []string{"tunnox-core/internal/protocol/session/tunnel", "tunnox-core/internal/stream"}

	for trial := 0; trial < n && run.Violations() < 20 && run.Counter("leak_violations") < 3 && run.Counter("watchdog") < 3; trial++ {
		path := paths[r.Intn(len(paths))]
		k := ks[r.Intn(len(ks))]
		s2t := c16Sizes[r.Intn(len(c16Sizes))]
		t2s := c16Sizes[r.Intn(len(c16Sizes))]
		if r.Intn(3) == 0 {
			t2s = 0
		}
		cloud := &c16Cloud{baseSent: int64(r.Intn(1000)), baseRecv: int64(r.Intn(1000)), yields: []int{0, 1, 5, 50}[r.Intn(4)]}
		spins := make([]int, k+1)
		for i := range spins {
			if r.Intn(2) == 0 {
				spins[i] = r.Intn(2000)
			}
		}
		desc := map[string]any{"trial": trial, "path": path, "K": k, "bytes_source_to_target": s2t, "bytes_target_to_source": t2s, "yields_in_get": cloud.yields, "spins": spins}
		run.Case("bridge|"+path, desc)
		run.Eval(1)
		snap := vk.SnapshotGoroutines()

		pctx, cancel := context.WithCancel(context.Background())
		srcFar, srcNear := net.Pipe()
		tgtFar, tgtNear := net.Pipe()
		srcStream := stream.NewStreamProcessor(srcNear, srcNear, pctx)
		tgtStream := stream.NewStreamProcessor(tgtNear, tgtNear, pctx)
		br := NewBridge(pctx, &BridgeConfig{TunnelID: fmt.Sprintf("c16-%d", trial), MappingID: "c16-map", ClientID: 7,
			SourceConn: srcNear, SourceStream: srcStream, CloudControl: cloud})
		tc := &c16TunnelConn{conn: tgtNear, st: tgtStream}
		br.SetTargetConnection(tc)
		startDone := make(chan struct{})
		go func() { defer close(startDone); _ = br.Start() }()

		var srcGot, tgtGot, srcFed, tgtFed atomic.Int64
		var hw sync.WaitGroup
		hw.Add(2)
		go c16Drain(tgtFar, &tgtGot, &hw)
		go c16Drain(srcFar, &srcGot, &hw)
		watchdog := false
		waitArrived := func(wantS, wantR int64) {
			dl := time.Now().Add(20 * time.Second)
			for tgtGot.Load() < wantS || srcGot.Load() < wantR {
				runtime.Gosched()
				if time.Now().After(dl) {
					watchdog = true
					return
				}
			}
		}
		// probe: one byte each way. Once both arrived, both copy loops of Start() are
		// running (closing a bridge while Start() is still launching them is the
		// subject of TestVerifC16BridgeStartRace, in its own process).
		hw.Add(2)
		go c16Feed(srcFar, 1, 1, &hw, &srcFed)
		go c16Feed(tgtFar, 1, 1, &hw, &tgtFed)
		waitArrived(1, 1)
		if path == "cancel-while-trickling" {
			// A chatty peer keeps sending 1-3 byte chunks (one copy-loop iteration each);
			// the parent context is cancelled at chunk cancelAt while it keeps sending. The
			// copy loop looks at its context only every 10000 iterations, so it leaves
			// through its context-cancelled exit with a pending (< 1 MB) batch counter. The
			// closers are released raceAfter chunks later, or as soon as the sender fails
			// (the bridge closed itself after noticing the cancellation).
			s2t, t2s = 0, 0
			cancelAt := 1000 + r.Intn(12000)
			raceAfter := []int{0, 3000, 12000, 30000}[r.Intn(4)]
			total := cancelAt + raceAfter + 1000
			if total < 26000 {
				total = 26000
			}
			trickleFar, trickleFed := srcFar, &srcFed
			if r.Intn(2) == 0 {
				trickleFar, trickleFed = tgtFar, &tgtFed
			}
			desc["trickle_chunks"], desc["cancel_at_chunk"], desc["release_closers_after_chunks"] = total, cancelAt, raceAfter
			desc["trickle_direction_source_to_target"] = trickleFar == srcFar
			sizes := make([]int, 64)
			for i := range sizes {
				sizes[i] = 1 + r.Intn(3)
			}
			raceNow := make(chan struct{})
			var once sync.Once
			hw.Add(1)
			go func() {
				defer hw.Done()
				defer once.Do(func() { close(raceNow) })
				buf := []byte{'x', 'y', 'z'}
				for i := 0; i < total; i++ {
					if i == cancelAt {
						cancel()
					}
					if i == cancelAt+raceAfter {
						once.Do(func() { close(raceNow) })
					}
					w, err := trickleFar.Write(buf[:sizes[i%len(sizes)]])
					trickleFed.Add(int64(w))
					if err != nil {
						return
					}
				}
			}()
			select {
			case <-raceNow:
			case <-time.After(30 * time.Second):
				watchdog = true
			}
			run.Count("trickle_runs", 1)
			if raceAfter >= 12000 && !watchdog {
				// the sender got past a 10000-iteration boundary after the cancellation, so
				// the copy loop has left through its context branch (pending batch < 1 MB,
				// > 0) and the bridge is closing itself; wait (bounded) until it says so
				dl := time.Now().Add(5 * time.Second)
				for !br.IsClosed() && time.Now().Before(dl) {
					runtime.Gosched()
				}
				if br.IsClosed() {
					run.Count("trickle_runs_ctx_exit_with_pending_batch", 1)
				}
			}
		}
		hw.Add(2)
		go c16Feed(srcFar, s2t, 32*1024, &hw, &srcFed)
		go c16Feed(tgtFar, t2s, 32*1024, &hw, &tgtFed)
		if path != "mid-transfer" && path != "cancel-while-trickling" {
			// steady state: everything that was fed has arrived at the other far end
			waitArrived(int64(s2t)+1, int64(t2s)+1)
		}
		fns := make([]func(), 0, k+1)
		for i := 0; i < k; i++ {
			fns = append(fns, func() { _ = br.Close() })
		}
		switch path {
		case "source-eof":
			fns = append(fns, func() { srcFar.Close() })
		case "both-eof":
			fns = append(fns, func() { srcFar.Close(); tgtFar.Close() })
		case "parent-cancel":
			fns = append(fns, cancel)
		}
		maxIn, ok := c16RunRace(fns, k, spins)
		// unblock every pending I/O, then wait for the component to wind down
		srcFar.Close()
		tgtFar.Close()
		hwDone := make(chan struct{})
		go func() { hw.Wait(); close(hwDone) }()
		for _, ch := range []chan struct{}{hwDone, startDone} {
			select {
			case <-ch:
			case <-time.After(20 * time.Second):
				watchdog = true
			}
		}
		cancel()
		if watchdog || !ok {
			run.Count("watchdog", 1)
			continue
		}
		leaked := snap.Leaked(scope, nil, 2*time.Second)
		run.Max("max_concurrent_closers", int64(maxIn))
		overlap := maxIn >= 2
		if overlap {
			run.Count("overlap_runs", 1)
		}
		cls := func(n int64) string {
			switch {
			case n == 0:
				return "0"
			case n < 1<<20:
				return "<1M"
			}
			return ">=1M"
		}
		run.Distinct(fmt.Sprintf("%s|K=%d|s2t=%s|t2s=%s|overlap=%v", path, k, cls(tgtGot.Load()), cls(srcGot.Load()), overlap))
		if len(leaked) > 0 {
			sum := vk.FrameSummary(leaked)
			run.Violation("C16:bridge|goroutine-left|"+c16LeakFn(leaked[0]), map[string]any{"case": desc, "frames": sum, "stack": leaked[0].Stack})
			run.Count("leak_violations", 1) // after 3 the test stops: every further trial would wait the full poll interval
		}
		if cloud.maxInGet.Load() >= 2 {
			run.Count("runs_with_two_reports_in_flight", 1)
		}
		// ---- oracle: conservation of reported traffic -----------------------------------
		movedS, movedR := tgtGot.Load(), srcGot.Load()
		repS, repR := cloud.sumSent.Load(), cloud.sumRecv.Load()
		obs := map[string]any{"case": desc, "endpoint_received_source_to_target": movedS, "endpoint_received_target_to_source": movedR,
			"sum_reported_sent": repS, "sum_reported_received": repR, "bridge_counter_sent": br.GetBytesSent(), "bridge_counter_received": br.GetBytesReceived(),
			"update_calls": cloud.updates.Load(), "get_calls": cloud.gets.Load(), "max_reports_in_flight": cloud.maxInGet.Load(), "overlap_observed": overlap}
		if br.GetBytesSent() != movedS || br.GetBytesReceived() != movedR {
			// the bridge's own counters disagree with what the endpoints saw: the
			// conservation oracle below would be meaningless for this run
			run.Count("bridge_counter_mismatch", 1)
			run.Observe("bridge_counter_mismatch_sample", obs)
		}
		if movedS+movedR > 0 {
			run.Count("runs_with_traffic_moved", 1)
		}
		if cloud.updates.Load() > 0 {
			run.Count("runs_with_traffic_reported", 1)
		}
		over := repS > movedS || repR > movedR
		under := repS < movedS || repR < movedR
		if over {
			run.Count("runs_over_reported", 1)
			if br.GetBytesSent() > movedS || br.GetBytesReceived() > movedR {
				// the bridge's own byte counter already exceeds what was forwarded
				run.Violation("C16:bridge|traffic-over-reported|byte-counter-inflated|path="+path, obs)
			} else {
				run.Violation("C16:bridge|traffic-reported-twice", obs)
			}
		}
		if under {
			run.Count("runs_under_reported", 1)
			run.Violation("C16:bridge|traffic-under-reported|path="+path, obs)
		}
		if !over && !under {
			run.Count("runs_conserved", 1)
		}
		if got := tc.closes.Load(); got != 1 {
			run.Violation(fmt.Sprintf("C16:bridge|target-conn-close-runs=%d", got), obs)
		}
		if !br.IsClosed() {
			run.Violation("C16:bridge|not-closed-after-close", obs)
		}
		// ---- every public method once more, under recover --------------------------------
		before := cloud.updates.Load()
		for _, op := range []struct {
			name string
			f    func()
		}{
			{"Close", func() { _ = br.Close() }}, {"Start", func() { _ = br.Start() }},
			{"GetTunnelID", func() { br.GetTunnelID() }}, {"GetSourceConnectionID", func() { br.GetSourceConnectionID() }},
			{"GetTargetConnectionID", func() { br.GetTargetConnectionID() }}, {"GetMappingID", func() { br.GetMappingID() }},
			{"GetClientID", func() { br.GetClientID() }}, {"IsActive", func() { br.IsActive() }},
			{"GetSourceTunnelConn", func() { br.GetSourceTunnelConn() }}, {"GetTargetTunnelConn", func() { br.GetTargetTunnelConn() }},
			{"GetSourceNetConn", func() { br.GetSourceNetConn() }}, {"GetTargetNetConn", func() { br.GetTargetNetConn() }},
			{"GetSourceConn", func() { br.GetSourceConn() }}, {"GetSourceForwarder", func() { br.GetSourceForwarder() }},
			{"GetTargetForwarder", func() { br.GetTargetForwarder() }}, {"GetBytesSent", func() { br.GetBytesSent() }},
			{"GetBytesReceived", func() { br.GetBytesReceived() }}, {"GetRateLimiter", func() { br.GetRateLimiter() }},
			{"WaitForTarget", func() { _ = br.WaitForTarget(time.Millisecond) }}, {"IsTargetReady", func() { br.IsTargetReady() }},
			{"NotifyTargetReady", func() { br.NotifyTargetReady() }}, {"GetCrossNodeConnection", func() { br.GetCrossNodeConnection() }},
			{"ReleaseCrossNodeConnection", func() { br.ReleaseCrossNodeConnection() }},
			{"SetSourceConnection(nil)", func() { br.SetSourceConnection(nil) }},
			{"CloseWithError", func() { _ = br.CloseWithError() }},
		} {
			name, f := op.name, op.f
			func() {
				defer func() {
					if e := recover(); e != nil {
						run.Violation("C16:bridge|panic-after-close|op="+name, map[string]any{"case": desc, "panic": fmt.Sprint(e)})
					}
				}()
				f()
			}()
		}
		if after := cloud.updates.Load(); after != before {
			run.Violation("C16:bridge|traffic-reported-again-after-close", map[string]any{"case": desc, "updates_before": before, "updates_after": after})
		}
		if l := snap.Leaked(scope, nil, time.Second); len(l) > 0 {
			run.Violation("C16:bridge|goroutine-left-after-post-close-calls", map[string]any{"case": desc, "frames": vk.FrameSummary(l), "stack": l[0].Stack})
			run.Count("leak_violations", 1) // after 3 the test stops: every further trial would wait the full poll interval
		}
	}
}

// c16LeakFn names a leaked goroutine by its entry function (outermost tunnox-core
// frame): stable across the states/inner frames the goroutine happens to be in.
func c16LeakFn(g vk.Goroutine) string {
	fn := "?"
	for _, l := range strings.Split(g.Stack, "\n") {
		if strings.HasPrefix(l, "tunnox-core/") {
			fn = l
			if i := strings.LastIndex(fn, "("); i > 0 {
				fn = fn[:i]
			}
		}
	}
	return fn
}
