//go:build verif && verif_c16

package mapping

import (
	"context"
	"errors"
	"fmt"
	"io"
	"net"
	"reflect"
	"runtime"
	"sync"
	"sync/atomic"
	"testing"
	"time"
	"unsafe"

	"tunnox-core/internal/cloud/models"
	"tunnox-core/internal/config"
	"tunnox-core/internal/stream"
	vk "tunnox-core/internal/verifkit"
)

// C16 (client mapping handler) — the traffic a mapping carried is reported to the server
// exactly once, also when Close/Stop lands while a periodic report is still in flight.
//
// Real BaseMappingHandler with an adapter double (hands out scripted local connections)
// and a client double (DialTunnel = net.Pipe + real StreamProcessor, TrackTraffic = summing
// and gated). One or more real tunnels carry seeded byte counts and finish (so the handler
// holds unreported totals); the periodic reporter is made to fire (its ticker, found by
// type through reflection, is reset to 1 ms); its TrackTraffic call is held at a gate; K
// closers (Close / Stop) run; the gate opens. Oracle: Σ reported == bytes carried, per
// direction; nothing of the handler is left running.

type c16Adapter struct {
	conns  chan io.ReadWriteCloser
	closed chan struct{}
	once   sync.Once
	closes atomic.Int32
}

func (a *c16Adapter) StartListener(config.MappingConfig) error { return nil }
func (a *c16Adapter) Accept() (io.ReadWriteCloser, error) {
	select {
	case c := <-a.conns:
		return c, nil
	case <-a.closed:
		return nil, errors.New("c16 adapter closed")
	}
}
func (a *c16Adapter) PrepareConnection(io.ReadWriteCloser) error { return nil }
func (a *c16Adapter) GetProtocol() string                        { return "tcp" }
func (a *c16Adapter) Close() error {
	a.closes.Add(1)
	a.once.Do(func() { close(a.closed) })
	return nil
}

type c16Client struct {
	ctx       context.Context
	tunnelFar chan net.Conn // far end of every dialled tunnel
	sumSent   atomic.Int64
	sumRecv   atomic.Int64
	calls     atomic.Int32
	inFlight  atomic.Int32
	gate      chan struct{} // the FIRST TrackTraffic call waits here
	gateOnce  atomic.Bool
	gateEnter chan struct{}
	enterOnce sync.Once
}

func (c *c16Client) DialTunnel(tunnelID, mappingID, secretKey string) (net.Conn, stream.PackageStreamer, error) {
	near, far := net.Pipe()
	c.tunnelFar <- far
	return near, stream.NewStreamProcessor(near, near, c.ctx), nil
}
func (c *c16Client) DialTunnelPooled(mappingID, secretKey string) (PooledTunnelConnInterface, error) {
	return nil, nil
}
func (c *c16Client) ReturnTunnelToPool(conn PooledTunnelConnInterface)  {}
func (c *c16Client) CloseTunnelFromPool(conn PooledTunnelConnInterface) {}
func (c *c16Client) IsTunnelPoolEnabled() bool                          { return false }
func (c *c16Client) GetContext() context.Context                        { return c.ctx }
func (c *c16Client) CheckMappingQuota(mappingID string) error           { return nil }
func (c *c16Client) TrackTraffic(mappingID string, bytesSent, bytesReceived int64) error {
	c.calls.Add(1)
	if c.gateOnce.CompareAndSwap(false, true) {
		c.enterOnce.Do(func() { close(c.gateEnter) })
		<-c.gate
	}
	c.sumSent.Add(bytesSent)
	c.sumRecv.Add(bytesReceived)
	return nil
}
func (c *c16Client) GetUserQuota() (*models.UserQuota, error) { return &models.UserQuota{}, nil }
func (c *c16Client) GetServerProtocol() string                { return "tcp" }
func (c *c16Client) SendTunnelCloseNotify(targetClientID int64, tunnelID, mappingID, reason string) error {
	return nil
}

// c16ResetTickers resets every *time.Ticker field of the handler struct (found by type,
// not by name) so that the periodic reporter fires now instead of in 30 s.
func c16ResetTickers(h *BaseMappingHandler, d time.Duration) int {
	n := 0
	v := reflect.ValueOf(h).Elem()
	for i := 0; i < v.NumField(); i++ {
		f := v.Field(i)
		if f.Type() == reflect.TypeOf((*time.Ticker)(nil)) && !f.IsNil() {
			tk := reflect.NewAt(f.Type(), unsafe.Pointer(f.UnsafeAddr())).Elem().Interface().(*time.Ticker)
			tk.Reset(d)
			n++
		}
	}
	return n
}

func TestVerifC16Mapping(t *testing.T) {
	vk.Quiet()
	run := vk.Start(t, "C16", "mapping-handler")
	defer run.Finish()
	run.Rule("trial = real BaseMappingHandler, 1-3 real tunnels carrying seeded byte counts and finishing, periodic report fired and its TrackTraffic held at a gate (or not), K in {1,2,4} Close/Stop callers, gate opened after (or racing) the closers; distinct = (tunnels, held?, K, release order)")
	r := run.Rand("trials")
	n := run.Pick(150, 1500)
	run.Floor("close_landed_while_periodic_report_in_flight", 50)
	run.Floor("trials_with_traffic_reported", 100)
	run.Floor("trials_all_tunnels_accounted_before_close", 100)
	scope := []string{"tunnox-core/internal/client/mapping", "tunnox-core/internal/client/tunnel", "tunnox-core/internal/utils/iocopy"}
	for trial := 0; trial < n && run.Violations() < 20 && run.Counter("leak_violations") < 3; trial++ {
		nt := 1 + r.Intn(3)
		held := r.Intn(4) != 0
		k := []int{1, 2, 4}[r.Intn(3)]
		releaseFirst := r.Intn(4) == 0 // gate opened by a racer instead of after the closers
		desc := map[string]any{"trial": trial, "tunnels": nt, "periodic_report_held": held, "K": k, "gate_released_by_racer": releaseFirst}
		run.Case("C16:mapping|close-during-report", desc)
		run.Eval(1)
		snap := vk.SnapshotGoroutines()
		pctx, cancel := context.WithCancel(context.Background())
		ad := &c16Adapter{conns: make(chan io.ReadWriteCloser, 4), closed: make(chan struct{})}
		cl := &c16Client{ctx: pctx, tunnelFar: make(chan net.Conn, 4), gate: make(chan struct{}), gateEnter: make(chan struct{})}
		if !held {
			cl.gateOnce.Store(true) // no call is held
		}
		h := NewBaseMappingHandler(cl, config.MappingConfig{MappingID: fmt.Sprintf("c16-map-%d", trial), Protocol: "tcp", LocalPort: 1, MaxConnections: 10}, ad)
		if err := h.Start(); err != nil {
			t.Fatalf("c16: handler start: %v", err)
		}
		// ---- tunnels carry traffic and finish ----------------------------------------------
		var carriedUp, carriedDown int64
		ok := true
		for i := 0; i < nt && ok; i++ {
			local, farLocal := net.Pipe()
			ad.conns <- local
			var farTunnel net.Conn
			select {
			case farTunnel = <-cl.tunnelFar:
			case <-time.After(10 * time.Second):
				ok = false
				continue
			}
			up, down := 1+r.Intn(5000), r.Intn(3000)
			var wg sync.WaitGroup
			var gotUp, gotDown atomic.Int64
			wg.Add(4)
			go func() { defer wg.Done(); farLocal.Write(make([]byte, up)) }()
			go func() { defer wg.Done(); farTunnel.Write(make([]byte, down)) }()
			rd := func(c net.Conn, want int, got *atomic.Int64) {
				defer wg.Done()
				buf := make([]byte, 8192)
				for int(got.Load()) < want {
					nn, err := c.Read(buf)
					got.Add(int64(nn))
					if err != nil {
						return
					}
				}
			}
			go rd(farTunnel, up, &gotUp)
			go rd(farLocal, down, &gotDown)
			wd := make(chan struct{})
			go func() { wg.Wait(); close(wd) }()
			select {
			case <-wd:
			case <-time.After(10 * time.Second):
				ok = false
			}
			carriedUp += gotUp.Load()
			carriedDown += gotDown.Load()
			farLocal.Close() // both peers hang up: the tunnel's copy finishes and it closes itself
			farTunnel.Close()
		}
		// The finished tunnels must have HANDED THEIR TOTALS to the handler before Close
		// begins: only such totals are promised to be reported. A tunnel unregisters from the
		// manager BEFORE it runs OnClosed (where the handler adds the totals), so "gone from
		// the manager" is not enough; the tunnel's own goroutines (its copy goroutine calls
		// Close -> OnClosed and then returns) being gone is. Tunnels that are still finishing
		// while the handler closes are not judged by this monitor: /repo runs its final report
		// before it closes the tunnel manager and does not wait for OnClosed callbacks in
		// flight, so their bytes may legitimately be reported or not.
		dl := time.Now().Add(10 * time.Second)
		for ok {
			if h.GetTunnelManager().CountTunnels() == 0 && !c16TunnelGoroutinesAlive(snap) {
				break
			}
			runtime.Gosched()
			if time.Now().After(dl) {
				ok = false
			}
		}
		if ok {
			run.Count("trials_all_tunnels_accounted_before_close", 1)
		}
		if !ok {
			run.Count("watchdog", 1)
			cancel()
			h.Stop()
			close(cl.gate)
			continue
		}
		// ---- periodic report fires; its RPC is held -------------------------------------------
		if c16ResetTickers(h, time.Millisecond) == 0 {
			t.Fatalf("c16: no *time.Ticker field found in BaseMappingHandler")
		}
		if held {
			select {
			case <-cl.gateEnter:
				run.Count("close_landed_while_periodic_report_in_flight", 1)
			case <-time.After(10 * time.Second):
				run.Count("watchdog", 1)
				cancel()
				h.Stop()
				close(cl.gate)
				continue
			}
		}
		// ---- Close / Stop ------------------------------------------------------------------------
		var wg sync.WaitGroup
		var flag atomic.Bool
		for i := 0; i < k; i++ {
			wg.Add(1)
			go func(i int) {
				defer wg.Done()
				for c := 0; !flag.Load() && c < 1<<26; c++ {
					if c > 1<<14 {
						runtime.Gosched()
					}
				}
				if i%2 == 0 {
					_ = h.Close()
				} else {
					h.Stop()
				}
			}(i)
		}
		if releaseFirst {
			wg.Add(1)
			go func() { defer wg.Done(); close(cl.gate) }()
		}
		flag.Store(true)
		cd := make(chan struct{})
		go func() { wg.Wait(); close(cd) }()
		select {
		case <-cd:
		case <-time.After(20 * time.Second):
			ok = false
		}
		if !releaseFirst {
			close(cl.gate)
		}
		cancel()
		if !ok {
			run.Count("watchdog", 1)
			continue
		}
		run.Distinct(fmt.Sprintf("tunnels=%d|held=%v|K=%d|racerRelease=%v", nt, held, k, releaseFirst))
		if l := snap.Leaked(scope, nil, 2*time.Second); len(l) > 0 {
			fn := "?"
			for _, line := range splitLines(l[0].Stack) {
				if len(line) > 12 && line[:12] == "tunnox-core/" {
					fn = line
				}
			}
			run.Violation("C16:mapping|goroutine-left|"+trimArgs(fn), map[string]any{"case": desc, "leaked": len(l), "frames": vk.FrameSummary(l), "stack": l[0].Stack})
			run.Count("leak_violations", 1)
		}
		// ---- oracle: every byte carried is reported exactly once ---------------------------------
		repS, repR := cl.sumSent.Load(), cl.sumRecv.Load()
		obs := map[string]any{"case": desc, "carried_local_to_tunnel": carriedUp, "carried_tunnel_to_local": carriedDown,
			"sum_reported_sent": repS, "sum_reported_received": repR, "track_traffic_calls": cl.calls.Load()}
		if cl.calls.Load() > 0 {
			run.Count("trials_with_traffic_reported", 1)
		}
		if repS > carriedUp || repR > carriedDown {
			run.Violation("C16:mapping|traffic-reported-twice|close-during-periodic-report="+fmt.Sprint(held), obs)
		} else if repS < carriedUp || repR < carriedDown {
			run.Violation("C16:mapping|traffic-under-reported|close-during-periodic-report="+fmt.Sprint(held), obs)
		} else {
			run.Count("trials_conserved", 1)
		}
		if got := ad.closes.Load(); got != 1 {
			run.Violation(fmt.Sprintf("C16:mapping|adapter-close-runs=%d", got), obs)
		}
	}
}

func splitLines(s string) []string {
	var out []string
	for len(s) > 0 {
		i := 0
		for i < len(s) && s[i] != '\n' {
			i++
		}
		out = append(out, s[:i])
		if i < len(s) {
			i++
		}
		s = s[i:]
	}
	return out
}

func trimArgs(fn string) string {
	for i := len(fn) - 1; i > 0; i-- {
		if fn[i] == '(' {
			return fn[:i]
		}
	}
	return fn
}

// c16TunnelGoroutinesAlive: is any goroutine created since snap still inside the client
// tunnel package or its copy helper (= a tunnel of this trial has not finished closing)?
func c16TunnelGoroutinesAlive(snap vk.LeakSnapshot) bool {
	for _, g := range vk.Goroutines() {
		if _, old := snap[g.ID]; old {
			continue
		}
		for _, line := range splitLines(g.Stack) {
			if len(line) > 12 && line[:12] == "tunnox-core/" {
				if hasPrefixAny(line, "tunnox-core/internal/client/tunnel.", "tunnox-core/internal/utils/iocopy.") {
					return true
				}
			}
		}
	}
	return false
}

func hasPrefixAny(s string, ps ...string) bool {
	for _, p := range ps {
		if len(s) >= len(p) && s[:len(p)] == p {
			return true
		}
	}
	return false
}
