//go:build verif && verif_c16

package memory

import (
	"context"
	"fmt"
	"math/rand"
	"runtime"
	"strings"
	"sync"
	"sync/atomic"
	"testing"
	"time"

	vk "tunnox-core/internal/verifkit"
)

// C16 (memory storage part) — K concurrent Close calls (through every embedded Close),
// concurrently with running operations, parent-context cancellation and a running
// cleanup goroutine: the registered cleanup runs exactly once, every public operation
// called afterwards (and during the close) returns instead of panicking, and the
// cleanup goroutine is gone.
//
// Each trial uses a fresh storage; the FIRST operation after Close is chosen round-robin
// over all public methods (Set re-creates the map, so only the first operation after
// Close sees the closed state), the rest follow in a seeded order.

type c16Race struct {
	ready   atomic.Int32
	flag    atomic.Uint32
	inside  atomic.Int32
	maxIn   atomic.Int32
	timeout atomic.Int32
}

var c16Sink atomic.Uint64

func c16Spin(n int) {
	for i := 0; i < n; i++ {
		c16Sink.Add(1)
	}
}

func c16RunRace(fns []func(), nCount int, spins []int) (maxInside int, ok bool) {
	r := &c16Race{}
	var wg sync.WaitGroup
	k := len(fns)
	wg.Add(k)
	for i := 0; i < k; i++ {
		go func(i int) {
			defer wg.Done()
			r.ready.Add(1)
			n := 0
			for r.flag.Load() == 0 {
				n++
				if n > 1<<16 {
					runtime.Gosched()
				}
				if n > 1<<26 {
					r.timeout.Add(1)
					break
				}
			}
			c16Spin(spins[i])
			if i < nCount {
				in := r.inside.Add(1)
				for {
					m := r.maxIn.Load()
					if in <= m || r.maxIn.CompareAndSwap(m, in) {
						break
					}
				}
			}
			fns[i]()
			if i < nCount {
				r.inside.Add(-1)
			}
		}(i)
	}
	deadline := time.Now().Add(10 * time.Second)
	for int(r.ready.Load()) < k {
		runtime.Gosched()
		if time.Now().After(deadline) {
			r.timeout.Add(1)
			break
		}
	}
	r.flag.Store(1)
	done := make(chan struct{})
	go func() { wg.Wait(); close(done) }()
	select {
	case <-done:
	case <-time.After(20 * time.Second):
		return int(r.maxIn.Load()), false
	}
	return int(r.maxIn.Load()), r.timeout.Load() == 0
}

type c16Op struct {
	name string
	f    func(s *Storage, key string)
}

// every public method of memory.Storage (Close included)
var c16Ops = []c16Op{
	{"Set", func(s *Storage, k string) { _ = s.Set(k, "v", time.Minute) }},
	{"Get", func(s *Storage, k string) { _, _ = s.Get(k) }},
	{"Delete", func(s *Storage, k string) { _ = s.Delete(k) }},
	{"Exists", func(s *Storage, k string) { _, _ = s.Exists(k) }},
	{"SetList", func(s *Storage, k string) { _ = s.SetList(k, []any{"a"}, time.Minute) }},
	{"GetList", func(s *Storage, k string) { _, _ = s.GetList(k) }},
	{"AppendToList", func(s *Storage, k string) { _ = s.AppendToList(k, "x") }},
	{"RemoveFromList", func(s *Storage, k string) { _ = s.RemoveFromList(k, "x") }},
	{"SetHash", func(s *Storage, k string) { _ = s.SetHash(k, "f", "v") }},
	{"GetHash", func(s *Storage, k string) { _, _ = s.GetHash(k, "f") }},
	{"GetAllHash", func(s *Storage, k string) { _, _ = s.GetAllHash(k) }},
	{"DeleteHash", func(s *Storage, k string) { _ = s.DeleteHash(k, "f") }},
	{"Incr", func(s *Storage, k string) { _, _ = s.Incr(k) }},
	{"IncrBy", func(s *Storage, k string) { _, _ = s.IncrBy(k, 3) }},
	{"SetExpiration", func(s *Storage, k string) { _ = s.SetExpiration(k, time.Minute) }},
	{"GetExpiration", func(s *Storage, k string) { _, _ = s.GetExpiration(k) }},
	{"CleanupExpired", func(s *Storage, k string) { _ = s.CleanupExpired() }},
	{"SetNX", func(s *Storage, k string) { _, _ = s.SetNX(k, "v", time.Minute) }},
	{"CompareAndSwap", func(s *Storage, k string) { _, _ = s.CompareAndSwap(k, nil, "n", time.Minute) }},
	{"Watch", func(s *Storage, k string) { _ = s.Watch(k, func(any) {}) }},
	{"Unwatch", func(s *Storage, k string) { _ = s.Unwatch(k) }},
	{"QueryByPrefix", func(s *Storage, k string) { _, _ = s.QueryByPrefix("k", 10) }},
	{"ZAdd", func(s *Storage, k string) { _ = s.ZAdd(k, "m", 1) }},
	{"ZRem", func(s *Storage, k string) { _ = s.ZRem(k, "m") }},
	{"ZRangeByScore", func(s *Storage, k string) { _, _ = s.ZRangeByScore(k, 0, 10) }},
	{"ZRemRangeByScore", func(s *Storage, k string) { _, _ = s.ZRemRangeByScore(k, 0, 10) }},
	{"ZScore", func(s *Storage, k string) { _, _, _ = s.ZScore(k, "m") }},
	{"ZCard", func(s *Storage, k string) { _, _ = s.ZCard(k) }},
	{"Close", func(s *Storage, k string) { _ = s.Close() }},
	{"IsClosed", func(s *Storage, k string) { _ = s.IsClosed() }},
	{"StartCleanup", func(s *Storage, k string) { s.StartCleanup(time.Hour) }},
	{"StopCleanup", func(s *Storage, k string) { s.StopCleanup() }},
}

// keys present before Close, by the type of their value, plus one absent key
var c16Keys = []string{"k:str", "k:list", "k:hash", "k:ctr", "k:zset", "k:absent"}

func c16Populate(s *Storage) {
	_ = s.Set("k:str", "v", 0)
	_ = s.SetList("k:list", []any{"a", "x"}, time.Hour)
	_ = s.SetHash("k:hash", "f", "v")
	_, _ = s.IncrBy("k:ctr", 5)
	_ = s.ZAdd("k:zset", "m", 1)
}

func c16Guard(run *vk.Run, phase string, op c16Op, s *Storage, key string, desc map[string]any) {
	defer func() {
		if e := recover(); e != nil {
			run.Count("panics_"+phase, 1)
			run.Violation("C16:memory|panic-after-close|op="+op.name,
				map[string]any{"case": desc, "phase": phase, "key": key, "panic": fmt.Sprint(e)})
		}
	}()
	op.f(s, key)
}

func TestVerifC16Memory(t *testing.T) {
	vk.Quiet()
	run := vk.Start(t, "C16", "memory")
	defer run.Finish()
	run.Rule("trial = fresh populated memory.Storage (cleanup goroutine running or not) x K in {2,4,12} closers via Storage.Close/ManagerBase.Close/Dispose.Close from a spin barrier x racers in {none, ops-during-close, parent-cancel}; first operation after Close round-robin over all 32 public methods x 6 keys; distinct = (first op, key, K, cleanup running, racer, overlap observed)")
	r := run.Rand("trials")
	n := run.Pick(12000, 200000)
	batch := 2000
	ks := []int{2, 4, 12}
	racers := []string{"none", "ops-during-close", "parent-cancel"}
	run.Floor("overlap_runs", 100)
	run.Floor("ops_during_close_after_latch", 100)
	scope := []string{"tunnox-core/internal/core/storage/memory"}
	for done := 0; done < n && run.Violations() < 20 && run.Counter("leak_violations") < 3; done += batch {
		snap := vk.SnapshotGoroutines()
		sampled := false
		for b := 0; b < batch && done+b < n; b++ {
			var ls vk.LeakSnapshot
			if !sampled {
				ls = snap
			}
			if c16MemoryTrial(run, r, done+b, ks, racers, ls) {
				sampled = true
			}
		}
		if l := snap.Leaked(scope, nil, 3*time.Second); len(l) > 0 {
			sum := vk.FrameSummary(l)
			run.Violation("C16:memory|goroutine-left|"+c16LeakFn(l[0]), map[string]any{"batch_start": done, "leaked": len(l), "frames": sum, "stack": l[0].Stack})
			run.Count("leak_violations", 1) // after 3 the test stops: every further trial would wait the full poll interval
		}
		run.Count("leak_checks", 1)
	}
}

func c16MemoryTrial(run *vk.Run, r *rand.Rand, trial int, ks []int, racers []string, leakSnap vk.LeakSnapshot) (usedSnap bool) {
	k := ks[r.Intn(len(ks))]
	racer := racers[r.Intn(len(racers))]
	cleanupRunning := r.Intn(2) == 0
	first := c16Ops[trial%len(c16Ops)]
	key := c16Keys[(trial/len(c16Ops))%len(c16Keys)]
	spins := make([]int, k+2)
	for i := range spins {
		if r.Intn(2) == 0 {
			spins[i] = r.Intn(200)
		}
	}
	desc := map[string]any{"trial": trial, "K": k, "racer": racer, "cleanup_running": cleanupRunning, "first_op_after_close": first.name, "key": key, "spins": spins}
	run.Eval(1)

	pctx, cancel := context.WithCancel(context.Background())
	defer cancel()
	s := New(pctx)
	var handlerRuns atomic.Int32
	s.AddCleanHandler(func() error { handlerRuns.Add(1); return nil })
	c16Populate(s)
	if cleanupRunning {
		s.StartCleanup(time.Millisecond)
	}
	fns := make([]func(), 0, k+2)
	for i := 0; i < k; i++ {
		switch (trial + i) % 3 {
		case 0:
			fns = append(fns, func() { _ = s.Close() })
		case 1:
			fns = append(fns, func() { _ = s.ManagerBase.Close() })
		default:
			fns = append(fns, func() { s.Dispose.Close() })
		}
	}
	switch racer {
	case "parent-cancel":
		fns = append(fns, cancel)
	case "ops-during-close":
		for j := 0; j < 2; j++ {
			op := c16Ops[r.Intn(len(c16Ops))]
			if op.name == "StartCleanup" || op.name == "Watch" {
				// starting a new cleaner while closing is not a close path; Watch reads the
				// map without the lock, so running it next to ANY writer is a fatal
				// "concurrent map read and map write" independent of Close (by-catch, not C16)
				op = c16Ops[0]
			}
			okey := c16Keys[r.Intn(len(c16Keys))]
			fns = append(fns, func() {
				for it := 0; it < 6; it++ {
					c16Guard(run, "during-close", op, s, okey, desc)
					if s.IsClosed() {
						run.Count("ops_during_close_after_latch", 1)
					}
				}
			})
		}
	}
	maxIn, ok := c16RunRace(fns, k, spins)
	if !ok {
		run.Count("watchdog", 1)
		return false
	}
	run.Max("max_concurrent_closers", int64(maxIn))
	if maxIn >= 2 {
		run.Count("overlap_runs", 1)
	}
	run.Distinct(fmt.Sprintf("%s|%s|K=%d|cleanup=%v|%s|overlap=%v", first.name, key, k, cleanupRunning, racer, maxIn >= 2))
	if got := handlerRuns.Load(); got != 1 {
		run.Violation(fmt.Sprintf("C16:memory|cleanup-handler-runs=%d", got), map[string]any{"case": desc})
	}
	if !s.IsClosed() {
		run.Violation("C16:memory|not-closed-after-close", map[string]any{"case": desc})
	}
	// the cleanup goroutine must have been told to stop by Close (it exits iff StopCleanup
	// ran, which clears cleanupRunning); checked before the post-close pass, whose own
	// StopCleanup call would otherwise hide a cleaner that Close left running
	s.mu.RLock()
	stillRunning := s.cleanupRunning
	s.mu.RUnlock()
	if stillRunning {
		run.Violation("C16:memory|cleanup-goroutine-running-after-close", map[string]any{"case": desc})
	}
	if cleanupRunning && leakSnap != nil {
		// real goroutine diff for the first such trial of each batch
		if l := leakSnap.Leaked([]string{"tunnox-core/internal/core/storage/memory"}, nil, time.Second); len(l) > 0 {
			sum := vk.FrameSummary(l)
			run.Violation("C16:memory|goroutine-left|"+c16LeakFn(l[0]), map[string]any{"case": desc, "leaked": len(l), "frames": sum, "stack": l[0].Stack})
			run.Count("leak_violations", 1)
		}
		run.Count("leak_checks_right_after_close", 1)
		usedSnap = true
	}
	// first operation on the closed storage
	c16Guard(run, "first-after-close", first, s, key, desc)
	// then every method once, seeded order, StopCleanup last so that a post-close
	// StartCleanup is always stopped again
	perm := r.Perm(len(c16Ops))
	for _, i := range perm {
		if c16Ops[i].name == "StopCleanup" {
			continue
		}
		c16Guard(run, "later-after-close", c16Ops[i], s, c16Keys[r.Intn(len(c16Keys))], desc)
	}
	c16Guard(run, "later-after-close", c16Op{"StopCleanup", func(s *Storage, k string) { s.StopCleanup() }}, s, "", desc)
	if got := handlerRuns.Load(); got != 1 {
		run.Violation(fmt.Sprintf("C16:memory|cleanup-handler-runs=%d", got), map[string]any{"case": desc, "when": "after-post-close-calls"})
	}
	return usedSnap
}

// c16LeakFn names a leaked goroutine by its entry function (outermost tunnox-core
// frame): stable across the states/inner frames the goroutine happens to be in.
func c16LeakFn(g vk.Goroutine) string {
	fn := "?"
	for _, l := range strings.Split(g.Stack, "\n") {
		if strings.HasPrefix(l, "tunnox-core/") {
			fn = l
			if i := strings.LastIndex(fn, "("); i > 0 {
				fn = fn[:i]
			}
		}
	}
	return fn
}
