//go:build verif && verif_c16

package hybrid

import (
	"context"
	"fmt"
	"runtime"
	"strings"
	"sync"
	"sync/atomic"
	"testing"
	"time"

	"tunnox-core/internal/core/storage/memory"
	"tunnox-core/internal/core/storage/types"
	vk "tunnox-core/internal/verifkit"
)

// C16 (hybrid storage part) — closing a hybrid Storage from K goroutines closes each of
// its tiers (local cache, shared cache, persistent store) exactly once, operations during
// and after the close return instead of panicking, and with a real memory tier whose
// cleanup goroutine is running nothing is left running afterwards.
//
// Tiers are counting doubles (Close counter, map-backed data), or a real memory.Storage
// as the local cache.

type c16Race struct {
	ready   atomic.Int32
	flag    atomic.Uint32
	inside  atomic.Int32
	maxIn   atomic.Int32
	timeout atomic.Int32
}

var c16Sink atomic.Uint64

func c16Spin(n int) {
	for i := 0; i < n; i++ {
		c16Sink.Add(1)
	}
}

func c16RunRace(fns []func(), nCount int, spins []int) (maxInside int, ok bool) {
	r := &c16Race{}
	var wg sync.WaitGroup
	k := len(fns)
	wg.Add(k)
	for i := 0; i < k; i++ {
		go func(i int) {
			defer wg.Done()
			r.ready.Add(1)
			n := 0
			for r.flag.Load() == 0 {
				n++
				if n > 1<<16 {
					runtime.Gosched()
				}
				if n > 1<<26 {
					r.timeout.Add(1)
					break
				}
			}
			c16Spin(spins[i])
			if i < nCount {
				in := r.inside.Add(1)
				for {
					m := r.maxIn.Load()
					if in <= m || r.maxIn.CompareAndSwap(m, in) {
						break
					}
				}
			}
			fns[i]()
			if i < nCount {
				r.inside.Add(-1)
			}
		}(i)
	}
	deadline := time.Now().Add(10 * time.Second)
	for int(r.ready.Load()) < k {
		runtime.Gosched()
		if time.Now().After(deadline) {
			r.timeout.Add(1)
			break
		}
	}
	r.flag.Store(1)
	done := make(chan struct{})
	go func() { wg.Wait(); close(done) }()
	select {
	case <-done:
	case <-time.After(20 * time.Second):
		return int(r.maxIn.Load()), false
	}
	return int(r.maxIn.Load()), r.timeout.Load() == 0
}

// ---- counting tier doubles -------------------------------------------------------------

type c16Tier struct {
	mu     sync.Mutex
	data   map[string]any
	closes atomic.Int32
}

func c16NewTier() *c16Tier { return &c16Tier{data: map[string]any{}} }

func (t *c16Tier) Set(key string, value any, ttl time.Duration) error {
	t.mu.Lock()
	defer t.mu.Unlock()
	t.data[key] = value
	return nil
}
func (t *c16Tier) Get(key string) (any, error) {
	t.mu.Lock()
	defer t.mu.Unlock()
	if v, ok := t.data[key]; ok {
		return v, nil
	}
	return nil, types.ErrKeyNotFound
}
func (t *c16Tier) Delete(key string) error {
	t.mu.Lock()
	defer t.mu.Unlock()
	delete(t.data, key)
	return nil
}
func (t *c16Tier) Exists(key string) (bool, error) {
	t.mu.Lock()
	defer t.mu.Unlock()
	_, ok := t.data[key]
	return ok, nil
}
func (t *c16Tier) Close() error { t.closes.Add(1); return nil }

type c16Persist struct{ c16Tier }

func (p *c16Persist) Set(key string, value any) error { return p.c16Tier.Set(key, value, 0) }
func (p *c16Persist) BatchSet(items map[string]any) error {
	for k, v := range items {
		_ = p.Set(k, v)
	}
	return nil
}
func (p *c16Persist) BatchGet(keys []string) (map[string]any, error) {
	out := map[string]any{}
	for _, k := range keys {
		if v, err := p.Get(k); err == nil {
			out[k] = v
		}
	}
	return out, nil
}
func (p *c16Persist) BatchDelete(keys []string) error {
	for _, k := range keys {
		_ = p.Delete(k)
	}
	return nil
}
func (p *c16Persist) QueryByField(keyPrefix string, fieldName string, fieldValue any) ([]string, error) {
	return nil, nil
}
func (p *c16Persist) QueryByPrefix(prefix string, limit int) (map[string]string, error) {
	return map[string]string{}, nil
}

type c16HOp struct {
	name string
	f    func(h *Storage, key string)
}

var c16HOps = []c16HOp{
	{"Set", func(h *Storage, k string) { _ = h.Set(k, "v", time.Minute) }},
	{"Get", func(h *Storage, k string) { _, _ = h.Get(k) }},
	{"Delete", func(h *Storage, k string) { _ = h.Delete(k) }},
	{"Exists", func(h *Storage, k string) { _, _ = h.Exists(k) }},
	{"SetList", func(h *Storage, k string) { _ = h.SetList(k, []any{"a"}, time.Minute) }},
	{"GetList", func(h *Storage, k string) { _, _ = h.GetList(k) }},
	{"AppendToList", func(h *Storage, k string) { _ = h.AppendToList(k, "x") }},
	{"RemoveFromList", func(h *Storage, k string) { _ = h.RemoveFromList(k, "x") }},
	{"SetHash", func(h *Storage, k string) { _ = h.SetHash(k, "f", "v") }},
	{"GetHash", func(h *Storage, k string) { _, _ = h.GetHash(k, "f") }},
	{"GetAllHash", func(h *Storage, k string) { _, _ = h.GetAllHash(k) }},
	{"DeleteHash", func(h *Storage, k string) { _ = h.DeleteHash(k, "f") }},
	{"Incr", func(h *Storage, k string) { _, _ = h.Incr(k) }},
	{"IncrBy", func(h *Storage, k string) { _, _ = h.IncrBy(k, 2) }},
	{"SetExpiration", func(h *Storage, k string) { _ = h.SetExpiration(k, time.Minute) }},
	{"GetExpiration", func(h *Storage, k string) { _, _ = h.GetExpiration(k) }},
	{"CleanupExpired", func(h *Storage, k string) { _ = h.CleanupExpired() }},
	{"SetNX", func(h *Storage, k string) { _, _ = h.SetNX(k, "v", time.Minute) }},
	{"SetNXRuntime", func(h *Storage, k string) { _, _ = h.SetNXRuntime(k, "v", time.Minute) }},
	{"CompareAndSwap", func(h *Storage, k string) { _, _ = h.CompareAndSwap(k, nil, "n", time.Minute) }},
	{"Watch", func(h *Storage, k string) { _ = h.Watch(k, func(any) {}) }},
	{"Unwatch", func(h *Storage, k string) { _ = h.Unwatch(k) }},
	{"QueryByPrefix", func(h *Storage, k string) { _, _ = h.QueryByPrefix("tunnox:", 5) }},
	{"SetPersistent", func(h *Storage, k string) { _ = h.SetPersistent(k, "v") }},
	{"SetRuntime", func(h *Storage, k string) { _ = h.SetRuntime(k, "v", time.Minute) }},
	{"GetConfig", func(h *Storage, k string) { h.GetConfig() }},
	{"IsPersistentEnabled", func(h *Storage, k string) { h.IsPersistentEnabled() }},
	{"GetPersistentStorage", func(h *Storage, k string) { h.GetPersistentStorage() }},
	{"GetRemoteStorage", func(h *Storage, k string) { h.GetRemoteStorage() }},
	{"Close", func(h *Storage, k string) { _ = h.Close() }},
}

// one key per data category (runtime, persistent, shared, shared+persistent)
var c16HKeys = []string{"rt:k", "tunnox:user:k", "tunnox:conn_state:k", "tunnox:port_mapping:k", "tunnox:id:ctr"}

func c16HGuard(run *vk.Run, phase string, op c16HOp, h *Storage, key string, desc map[string]any) {
	defer func() {
		if e := recover(); e != nil {
			run.Violation("C16:hybrid|panic-after-close|op="+op.name, map[string]any{"case": desc, "phase": phase, "key": key, "panic": fmt.Sprint(e)})
		}
	}()
	op.f(h, key)
}

func TestVerifC16Hybrid(t *testing.T) {
	vk.Quiet()
	run := vk.Start(t, "C16", "hybrid")
	defer run.Finish()
	run.Rule("trial = hybrid.Storage over (counting tier doubles | real memory cache with cleanup goroutine) with/without shared cache and persistent tier x K in {2,4,12} closers (Close/ManagerBase.Close/Dispose.Close) from a spin barrier x racers in {none, ops-during-close, parent-cancel}; first op after Close round-robin over 30 public methods x 5 key categories; distinct = (tiers, first op, key, K, racer, overlap)")
	r := run.Rand("trials")
	n := run.Pick(4500, 45000)
	batch := 1500
	ks := []int{2, 4, 12}
	racers := []string{"none", "ops-during-close", "parent-cancel"}
	run.Floor("overlap_runs", 100)
	scope := []string{"tunnox-core/internal/core/storage/"}
	for done := 0; done < n && run.Violations() < 20 && run.Counter("leak_violations") < 3; done += batch {
		snap := vk.SnapshotGoroutines()
		memLeakChecked := false
		for b := 0; b < batch && done+b < n; b++ {
			trial := done + b
			k := ks[r.Intn(len(ks))]
			racer := racers[r.Intn(len(racers))]
			realMem := r.Intn(3) == 0
			withShared := r.Intn(2) == 0
			withPersist := r.Intn(2) == 0
			first := c16HOps[trial%len(c16HOps)]
			key := c16HKeys[(trial/len(c16HOps))%len(c16HKeys)]
			spins := make([]int, k+2)
			for i := range spins {
				if r.Intn(2) == 0 {
					spins[i] = r.Intn(200)
				}
			}
			desc := map[string]any{"trial": trial, "K": k, "racer": racer, "real_memory_cache": realMem, "shared_cache": withShared,
				"persistent": withPersist, "first_op_after_close": first.name, "key": key, "spins": spins}
			run.Eval(1)
			pctx, cancel := context.WithCancel(context.Background())
			var cache types.CacheStorage
			cacheD := c16NewTier()
			var mem *memory.Storage
			if realMem {
				mem = memory.New(pctx)
				mem.StartCleanup(time.Millisecond)
				cache = mem
			} else {
				cache = cacheD
			}
			var shared types.CacheStorage
			sharedD := c16NewTier()
			if withShared {
				shared = sharedD
			}
			var persist types.PersistentStorage
			persistD := &c16Persist{}
			persistD.data = map[string]any{}
			cfg := DefaultConfig()
			if withPersist {
				persist = persistD
				cfg.EnablePersistent = true
			}
			h := NewWithSharedCache(pctx, cache, shared, persist, cfg)
			for _, kk := range c16HKeys[:4] {
				_ = h.Set(kk, "seed", time.Minute)
			}
			fns := make([]func(), 0, k+2)
			for i := 0; i < k; i++ {
				switch (trial + i) % 3 {
				case 0:
					fns = append(fns, func() { _ = h.Close() })
				case 1:
					fns = append(fns, func() { _ = h.ManagerBase.Close() })
				default:
					fns = append(fns, func() { h.Dispose.Close() })
				}
			}
			switch racer {
			case "parent-cancel":
				fns = append(fns, cancel)
			case "ops-during-close":
				for j := 0; j < 2; j++ {
					op := c16HOps[r.Intn(len(c16HOps))]
					okey := c16HKeys[r.Intn(len(c16HKeys))]
					fns = append(fns, func() {
						for it := 0; it < 4; it++ {
							c16HGuard(run, "during-close", op, h, okey, desc)
						}
					})
				}
			}
			maxIn, ok := c16RunRace(fns, k, spins)
			if !ok {
				run.Count("watchdog", 1)
				cancel()
				continue
			}
			run.Max("max_concurrent_closers", int64(maxIn))
			if maxIn >= 2 {
				run.Count("overlap_runs", 1)
			}
			tiers := fmt.Sprintf("mem=%v,shared=%v,persist=%v", realMem, withShared, withPersist)
			run.Distinct(fmt.Sprintf("%s|%s|%s|K=%d|%s|overlap=%v", tiers, first.name, key, k, racer, maxIn >= 2))
			// ---- exactly-once close of every tier ----------------------------------------
			judge := func(when string) {
				check := func(tier string, present bool, got int32) {
					if present && got != 1 {
						run.Violation(fmt.Sprintf("C16:hybrid|%s-close-runs=%d", tier, got), map[string]any{"case": desc, "when": when})
					}
				}
				check("cache", !realMem, cacheD.closes.Load())
				check("shared-cache", withShared, sharedD.closes.Load())
				check("persistent", withPersist, persistD.closes.Load())
				if realMem && !mem.IsClosed() {
					run.Violation("C16:hybrid|memory-cache-not-closed", map[string]any{"case": desc, "when": when})
				}
			}
			judge("after-close")
			if !h.IsClosed() {
				run.Violation("C16:hybrid|not-closed-after-close", map[string]any{"case": desc})
			}
			c16HGuard(run, "first-after-close", first, h, key, desc)
			for _, i := range r.Perm(len(c16HOps)) {
				c16HGuard(run, "later-after-close", c16HOps[i], h, c16HKeys[r.Intn(len(c16HKeys))], desc)
			}
			judge("after-post-close-calls")
			if realMem {
				// goroutine diff for the first real-memory trial of each batch, before the
				// harness itself stops the memory tier (a tier that hybrid.Close left open
				// would otherwise keep its 1 ms cleanup ticker running for the rest of the run)
				if !memLeakChecked {
					memLeakChecked = true
					if l := snap.Leaked(scope, nil, 500*time.Millisecond); len(l) > 0 {
						sum := vk.FrameSummary(l)
						run.Violation("C16:hybrid|goroutine-left|"+c16LeakFn(l[0]), map[string]any{"case": desc, "leaked": len(l), "frames": sum, "stack": l[0].Stack})
						run.Count("leak_violations", 1) // after 3 the test stops: every further trial would wait the full poll interval
					}
				}
				_ = mem.Close()
			}
			cancel()
		}
		// asynchronous write-backs of Get() finish on their own; then nothing may remain
		if l := snap.Leaked(scope, nil, 3*time.Second); len(l) > 0 {
			sum := vk.FrameSummary(l)
			run.Violation("C16:hybrid|goroutine-left|"+c16LeakFn(l[0]), map[string]any{"batch_start": done, "leaked": len(l), "frames": sum, "stack": l[0].Stack})
			run.Count("leak_violations", 1) // after 3 the test stops: every further trial would wait the full poll interval
		}
		run.Count("leak_checks", 1)
	}
}

// c16LeakFn names a leaked goroutine by its entry function (outermost tunnox-core
// frame): stable across the states/inner frames the goroutine happens to be in.
func c16LeakFn(g vk.Goroutine) string {
	fn := "?"
	for _, l := range strings.Split(g.Stack, "\n") {
		if strings.HasPrefix(l, "tunnox-core/") {
			fn = l
			if i := strings.LastIndex(fn, "("); i > 0 {
				fn = fn[:i]
			}
		}
	}
	return fn
}
