//go:build verif && verif_c16

package session

import (
	"context"
	"fmt"
	"io"
	"net"
	"runtime"
	"sort"
	"strings"
	"sync"
	"sync/atomic"
	"testing"
	"time"

	"tunnox-core/internal/core/idgen"
	"tunnox-core/internal/core/storage"
	"tunnox-core/internal/core/types"
	"tunnox-core/internal/packet"
	"tunnox-core/internal/stream"
	vk "tunnox-core/internal/verifkit"
)

// C16 (session manager part) — SessionManager.Close from K goroutines, concurrently with
// CloseConnection of the same connections, a new AcceptConnection, the 1 ms cleanup ticker
// and parent-context cancellation: the cleanup runs exactly once, every connection that
// was accepted before the close is closed (its peer sees the end of the stream), the
// connection read loops return without panicking, the cleanup goroutine is gone, and
// public methods called afterwards do not panic.

type c16Race struct {
	ready   atomic.Int32
	flag    atomic.Uint32
	inside  atomic.Int32
	maxIn   atomic.Int32
	timeout atomic.Int32
}

var c16Sink atomic.Uint64

func c16Spin(n int) {
	for i := 0; i < n; i++ {
		c16Sink.Add(1)
	}
}

func c16RunRace(fns []func(), nCount int, spins []int, snap vk.LeakSnapshot, markers []string) (maxInside int, ok bool, hung []string) {
	r := &c16Race{}
	var wg sync.WaitGroup
	k := len(fns)
	wg.Add(k)
	for i := 0; i < k; i++ {
		go func(i int) {
			defer wg.Done()
			r.ready.Add(1)
			n := 0
			for r.flag.Load() == 0 {
				n++
				if n > 1<<16 {
					runtime.Gosched()
				}
				if n > 1<<26 {
					r.timeout.Add(1)
					break
				}
			}
			c16Spin(spins[i])
			if i < nCount {
				in := r.inside.Add(1)
				for {
					m := r.maxIn.Load()
					if in <= m || r.maxIn.CompareAndSwap(m, in) {
						break
					}
				}
			}
			fns[i]()
			if i < nCount {
				r.inside.Add(-1)
			}
		}(i)
	}
	deadline := time.Now().Add(10 * time.Second)
	for int(r.ready.Load()) < k {
		runtime.Gosched()
		if time.Now().After(deadline) {
			r.timeout.Add(1)
			break
		}
	}
	r.flag.Store(1)
	done := make(chan struct{})
	go func() { wg.Wait(); close(done) }()
	finished, hung := c16WaitOrHang(done, snap, markers)
	if !finished {
		return int(r.maxIn.Load()), false, hung
	}
	return int(r.maxIn.Load()), r.timeout.Load() == 0, nil
}

// c16Deadlocked decides "hang" logically (DESIGN 2.5b): it takes three goroutine dumps
// 100 ms apart and looks at the goroutines created since snap whose stack contains one of
// the markers (= this trial's closers and operations inside the component). If they are
// the same goroutines, none running or runnable, in the same state and innermost frame
// every time, and at least one of them is parked in a mutex Lock, no progress is possible
// any more: the harness itself is only waiting and feeds nothing.
func c16Deadlocked(snap vk.LeakSnapshot, markers []string) (stacks []string, dead bool) {
	var prev []string
	for round := 0; round < 3; round++ {
		if round > 0 {
			time.Sleep(100 * time.Millisecond)
		}
		var cur []string
		stacks = stacks[:0]
		inLock := false
		for _, g := range vk.Goroutines() {
			if _, old := snap[g.ID]; old {
				continue
			}
			involved := false
			for _, m := range markers {
				if strings.Contains(g.Stack, m) {
					involved = true
				}
			}
			if !involved {
				continue
			}
			if strings.HasPrefix(g.State, "running") || strings.HasPrefix(g.State, "runnable") {
				return nil, false
			}
			if strings.Contains(g.Stack, "sync.(*Mutex).Lock") || strings.Contains(g.Stack, "sync.(*RWMutex).") {
				inLock = true
			}
			cur = append(cur, g.ID+"|"+strings.SplitN(g.State, ",", 2)[0]+"|"+g.Top)
			st := g.Stack
			if len(st) > 1500 {
				st = st[:1500]
			}
			stacks = append(stacks, st)
		}
		sort.Strings(cur)
		if len(cur) == 0 || !inLock || (round > 0 && strings.Join(cur, ";") != strings.Join(prev, ";")) {
			return nil, false
		}
		prev = cur
	}
	return stacks, true
}

// c16WaitOrHang waits for done. Normal trials finish within microseconds; after 1 s the
// logical hang classifier is consulted every 2 s; the 20 s cap is an inconclusive watchdog.
func c16WaitOrHang(done <-chan struct{}, snap vk.LeakSnapshot, markers []string) (finished bool, stacks []string) {
	wait := time.Second
	deadline := time.Now().Add(20 * time.Second)
	for {
		select {
		case <-done:
			return true, nil
		case <-time.After(wait):
		}
		if st, dead := c16Deadlocked(snap, markers); dead {
			return false, st
		}
		if time.Now().After(deadline) {
			return false, nil
		}
		wait = 2 * time.Second
	}
}

// c16PanicSite names the innermost tunnox-core frames below a recovered panic.
func c16PanicSite() string {
	pc := make([]uintptr, 40)
	n := runtime.Callers(3, pc)
	fr := runtime.CallersFrames(pc[:n])
	var out []string
	for {
		f, more := fr.Next()
		if strings.HasPrefix(f.Function, "tunnox-core/") && !strings.Contains(f.Function, "c16") && !strings.Contains(f.Function, "VerifC16") {
			out = append(out, fmt.Sprintf("%s:%d", f.Function[strings.LastIndex(f.Function, "/")+1:], f.Line))
			if len(out) == 3 {
				break
			}
		}
		if !more {
			break
		}
	}
	return strings.Join(out, " < ")
}

func TestVerifC16SessionManager(t *testing.T) {
	vk.Quiet()
	run := vk.Start(t, "C16", "session-manager")
	defer run.Finish()
	run.Rule("trial = real SessionManager (1 ms cleanup ticker) with M in {0,1,5} accepted net.Pipe connections (some registered as control connections) each with a read loop blocked in ReadPacket x K in {2,4,12} Close callers from a spin barrier x racers subset of {CloseConnection per connection, AcceptConnection of a new connection, parent-cancel}; distinct = (M,K,racers,overlap)")
	r := run.Rand("trials")
	n := run.Pick(400, 4000)
	ks := []int{2, 4, 12}
	run.Floor("overlap_runs", 100)
	run.Floor("connections_closed_by_close", 100)
	run.Floor("nonnet_prehandshake_conns_at_close", 100)
	scope := []string{"tunnox-core/internal/protocol/session", "tunnox-core/internal/stream"}
	stor := storage.NewMemoryStorage(context.Background())
	defer stor.Close()
	idm := idgen.NewIDManager(stor, context.Background())
	defer idm.Close()

	for trial := 0; trial < n && run.Violations() < 20 && run.Counter("leak_violations") < 3 && run.Counter("close_deadlocks") < 3 && run.Counter("conns_left_open") < 10; trial++ {
		k := ks[r.Intn(len(ks))]
		m := []int{0, 1, 5}[r.Intn(3)]
		withCloseConn := r.Intn(2) == 0
		withAccept := r.Intn(2) == 0
		withCancel := r.Intn(4) == 0
		spins := make([]int, k+m+2)
		for i := range spins {
			if r.Intn(2) == 0 {
				spins[i] = r.Intn(500)
			}
		}
		desc := map[string]any{"trial": trial, "K": k, "connections": m, "close_connection_racers": withCloseConn, "accept_racer": withAccept, "parent_cancel": withCancel, "spins": spins}
		run.Case("C16:session|close", desc)
		run.Eval(1)
		snap := vk.SnapshotGoroutines()
		pctx, cancel := context.WithCancel(context.Background())
		sm := NewSessionManagerWithConfig(idm, pctx, &SessionConfig{HeartbeatTimeout: time.Hour, CleanupInterval: time.Millisecond, MaxConnections: 100, MaxControlConnections: 100})
		var handlerRuns atomic.Int32
		sm.AddCleanHandler(func() error { handlerRuns.Add(1); return nil })

		type cconn struct {
			id       string
			far      net.Conn
			drained  chan error
			panicked atomic.Value
			closes   func() int32
			st       stream.PackageStreamer
			kind     string
		}
		var conns []*cconn
		var readers sync.WaitGroup
		setupFailed := false
		for i := 0; i < m; i++ {
			near, far := net.Pipe()
			// transport: a net.Conn (TCP-like, RawConn set) or a plain reader/writer/closer
			// (WebSocket / long-polling style, RawConn nil); either is counted when closed
			nonNet := r.Intn(2) == 0
			registered := r.Intn(2) == 0 // else: accepted, handshake not completed (in no registry)
			var rw io.ReadWriter
			var closes func() int32
			if nonNet {
				t := &c16RW{c: near}
				rw, closes = t, t.closes.Load
			} else {
				t := &c16CountNetConn{Conn: near}
				rw, closes = t, t.closes.Load
			}
			sc, err := sm.AcceptConnection(rw, rw)
			if err != nil {
				setupFailed = true
				break
			}
			cc := &cconn{id: sc.ID, far: far, closes: closes, st: sc.Stream, kind: fmt.Sprintf("net.Conn=%v|registered=%v", !nonNet, registered)}
			conns = append(conns, cc)
			if registered {
				sm.RegisterControlConnection(NewControlConnection(sc.ID, sc.Stream, near.RemoteAddr(), "tcp"))
			} else if nonNet {
				run.Count("nonnet_prehandshake_conns_at_close", 1)
			}
			readers.Add(1)
			go func(st stream.PackageStreamer) {
				defer readers.Done()
				defer func() {
					if e := recover(); e != nil {
						cc.panicked.Store(fmt.Sprint(e) + " @ " + c16PanicSite())
					}
				}()
				for j := 0; j < 1000; j++ {
					if _, _, err := st.ReadPacket(); err != nil {
						return
					}
				}
			}(sc.Stream)
			// a sender on the same connection (heartbeats / responses): operations keep
			// STARTING while Close is cleaning up; the peer drains them
			readers.Add(1)
			go func(st stream.PackageStreamer) {
				defer readers.Done()
				defer func() {
					if e := recover(); e != nil {
						cc.panicked.Store(fmt.Sprint(e) + " @ " + c16PanicSite())
					}
				}()
				for j := 0; j < 100000; j++ {
					if _, err := st.WritePacket(&packet.TransferPacket{PacketType: packet.Heartbeat}, false, 0); err != nil {
						return
					}
				}
			}(sc.Stream)
			cc.drained = make(chan error, 1)
			go func() {
				buf := make([]byte, 4096)
				for {
					if _, err := cc.far.Read(buf); err != nil {
						cc.drained <- err
						return
					}
				}
			}()
		}
		if setupFailed {
			t.Fatalf("c16: AcceptConnection failed during setup")
		}
		fns := make([]func(), 0, k+m+2)
		for i := 0; i < k; i++ {
			fns = append(fns, func() { _ = sm.Close() })
		}
		if withCloseConn {
			for _, cc := range conns {
				id := cc.id
				fns = append(fns, func() { _ = sm.CloseConnection(id) })
			}
		}
		var lateNear, lateFar net.Conn
		var lateAccepted atomic.Bool
		if withAccept {
			lateNear, lateFar = net.Pipe()
			fns = append(fns, func() {
				if _, err := sm.AcceptConnection(lateNear, lateNear); err == nil {
					lateAccepted.Store(true)
				}
			})
		}
		if withCancel {
			fns = append(fns, cancel)
		}
		markers := []string{"tunnox-core/internal/protocol/session.(*SessionManager)", "tunnox-core/internal/stream.(*StreamProcessor)"}
		maxIn, ok, hung := c16RunRace(fns, k, spins[:len(fns)], snap, markers)
		if hung != nil {
			// Close (or a read loop racing it) can never return; abandon this trial's goroutines
			run.Violation("C16:session|close-deadlock", map[string]any{"case": desc, "parked_goroutines": len(hung), "stacks": hung})
			run.Count("close_deadlocks", 1)
			for _, cc := range conns {
				cc.far.Close()
			}
			if lateFar != nil {
				lateFar.Close()
				lateNear.Close()
			}
			cancel()
			continue
		}
		// every connection accepted before the race must have been closed by now: its
		// peer's pending read ends (pipe closed) instead of blocking
		// (decided from the transport's Close counter; the peer's read is corroboration)
		leftOpen := []string{}
		writeOK := []string{}
		for _, cc := range conns {
			if cc.closes() >= 1 {
				run.Count("connections_closed_by_close", 1)
				cc.far.SetReadDeadline(time.Now().Add(3 * time.Second))
				<-cc.drained
			} else {
				cc.far.SetReadDeadline(time.Now().Add(200 * time.Millisecond))
				err := <-cc.drained
				ne, isNet := err.(net.Error)
				leftOpen = append(leftOpen, fmt.Sprintf("%s|peer_read_still_blocked=%v", cc.kind, isNet && ne.Timeout()))
				run.Count("conns_left_open", 1)
			}
			// later operations fail cleanly: a write on the connection's stream must not succeed
			if cc.closes() == 0 {
				// still open: give the write a reader again, or it would block on the pipe
				cc.far.SetReadDeadline(time.Time{})
				go func(far net.Conn) {
					buf := make([]byte, 64)
					for {
						if _, err := far.Read(buf); err != nil {
							return
						}
					}
				}(cc.far)
			}
			func() {
				defer func() { recover() }() // panics are judged by the read/write loops above
				if _, err := cc.st.WritePacket(&packet.TransferPacket{PacketType: packet.Heartbeat}, false, 0); err == nil && cc.closes() == 0 {
					writeOK = append(writeOK, cc.kind)
				}
			}()
			cc.far.Close()
		}
		if lateFar != nil {
			if lateAccepted.Load() && sm.IsClosed() {
				run.Count("accept_succeeded_around_close", 1)
			}
			lateFar.Close()
			lateNear.Close()
		}
		rd := make(chan struct{})
		go func() { readers.Wait(); close(rd) }()
		select {
		case <-rd:
		case <-time.After(20 * time.Second):
			ok = false
		}
		cancel()
		if !ok {
			run.Count("watchdog", 1)
			continue
		}
		run.Max("max_concurrent_closers", int64(maxIn))
		if maxIn >= 2 {
			run.Count("overlap_runs", 1)
		}
		run.Distinct(fmt.Sprintf("M=%d|K=%d|cc=%v|acc=%v|cancel=%v|overlap=%v", m, k, withCloseConn, withAccept, withCancel, maxIn >= 2))
		if len(leftOpen) > 0 {
			run.Violation("C16:session|connection-left-open-after-close|"+leftOpen[0][:strings.LastIndex(leftOpen[0], "|")], map[string]any{"case": desc, "left_open": leftOpen, "write_still_succeeds_on": writeOK})
		}
		for _, cc := range conns {
			if p := cc.panicked.Load(); p != nil {
				run.Violation("C16:session|read-loop-panic-during-close", map[string]any{"case": desc, "panic": p})
			}
		}
		if got := handlerRuns.Load(); got != 1 {
			run.Violation(fmt.Sprintf("C16:session|cleanup-handler-runs=%d", got), map[string]any{"case": desc})
		}
		if !sm.IsClosed() {
			run.Violation("C16:session|not-closed-after-close", map[string]any{"case": desc})
		}
		if l := snap.Leaked(scope, nil, 3*time.Second); len(l) > 0 {
			sum := vk.FrameSummary(l)
			run.Violation("C16:session|goroutine-left|"+c16LeakFn(l[0]), map[string]any{"case": desc, "frames": sum, "stack": l[0].Stack})
			run.Count("leak_violations", 1) // after 3 the test stops: every further trial would wait the full poll interval
		}
		// representative public methods after close, under recover
		pn, pf := net.Pipe()
		for _, op := range []struct {
			name string
			f    func()
		}{
			{"Close", func() { _ = sm.Close() }},
			{"AcceptConnection", func() { _, _ = sm.AcceptConnection(pn, pn) }},
			{"GetConnection", func() { sm.GetConnection("x") }},
			{"ListConnections", func() { sm.ListConnections() }},
			{"UpdateConnectionState", func() { _ = sm.UpdateConnectionState("x", types.StateConnected) }},
			{"CloseConnection", func() { _ = sm.CloseConnection("x") }},
			{"GetStreamConnectionInfo", func() { sm.GetStreamConnectionInfo("x") }},
			{"GetActiveConnections", func() { sm.GetActiveConnections() }},
			{"GetActiveChannels", func() { sm.GetActiveChannels() }},
			{"GetConnectionStats", func() { sm.GetConnectionStats() }},
			{"GetControlConnection", func() { sm.GetControlConnection("x") }},
			{"GetControlConnectionByClientID", func() { sm.GetControlConnectionByClientID(1) }},
			{"RemoveControlConnection", func() { sm.RemoveControlConnection("x") }},
			{"GetTunnelConnectionByConnID", func() { sm.GetTunnelConnectionByConnID("x") }},
			{"RemoveTunnelConnection", func() { sm.RemoveTunnelConnection("x") }},
			{"GetClientIDByConnectionID", func() { sm.GetClientIDByConnectionID("x") }},
			{"KickOldControlConnection", func() { sm.KickOldControlConnection(1, "x") }},
			{"MarkTunnelClosed", func() { sm.MarkTunnelClosed("t") }},
			{"IsTunnelClosed", func() { sm.IsTunnelClosed("t") }},
			{"GetActiveTunnelCount", func() { sm.GetActiveTunnelCount() }},
			{"GetActiveTunnels", func() { sm.GetActiveTunnels() }},
			{"GetTunnelBridgeByConnectionID", func() { sm.GetTunnelBridgeByConnectionID("x") }},
			{"GetNodeID", func() { sm.GetNodeID() }},
			{"GetStreamManager", func() { sm.GetStreamManager() }},
			{"WaitForTunnelsToComplete", func() { sm.WaitForTunnelsToComplete(0) }},
		} {
			name, f := op.name, op.f
			func() {
				defer func() {
					if e := recover(); e != nil {
						run.Violation("C16:session|panic-after-close|op="+name, map[string]any{"case": desc, "panic": fmt.Sprint(e)})
					}
				}()
				f()
			}()
		}
		pn.Close()
		pf.Close()
		if got := handlerRuns.Load(); got != 1 {
			run.Violation(fmt.Sprintf("C16:session|cleanup-handler-runs=%d", got), map[string]any{"case": desc, "when": "after-post-close-calls"})
		}
		if l := snap.Leaked(scope, nil, time.Second); len(l) > 0 {
			sum := vk.FrameSummary(l)
			run.Violation("C16:session|goroutine-left-after-post-close-calls|"+c16LeakFn(l[0]), map[string]any{"case": desc, "frames": sum, "stack": l[0].Stack})
			run.Count("leak_violations", 1) // after 3 the test stops: every further trial would wait the full poll interval
		}
	}
}

// c16LeakFn names a leaked goroutine by its entry function (outermost tunnox-core
// frame): stable across the states/inner frames the goroutine happens to be in.
func c16LeakFn(g vk.Goroutine) string {
	fn := "?"
	for _, l := range strings.Split(g.Stack, "\n") {
		if strings.HasPrefix(l, "tunnox-core/") {
			fn = l
			if i := strings.LastIndex(fn, "("); i > 0 {
				fn = fn[:i]
			}
		}
	}
	return fn
}

// c16RW is a transport that is NOT a net.Conn: reader + writer + closer only.
type c16RW struct {
	c      net.Conn
	closes atomic.Int32
}

func (t *c16RW) Read(p []byte) (int, error)  { return t.c.Read(p) }
func (t *c16RW) Write(p []byte) (int, error) { return t.c.Write(p) }
func (t *c16RW) Close() error                { t.closes.Add(1); return t.c.Close() }

type c16CountNetConn struct {
	net.Conn
	closes atomic.Int32
}

func (t *c16CountNetConn) Close() error { t.closes.Add(1); return t.Conn.Close() }
