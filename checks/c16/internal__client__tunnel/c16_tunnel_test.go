//go:build verif && verif_c16

package tunnel

import (
	"context"
	"errors"
	"fmt"
	"net"
	"runtime"
	"strings"
	"sync"
	"sync/atomic"
	"testing"
	"time"

	vk "tunnox-core/internal/verifkit"
)

// C16 (client tunnel part) — Tunnel.Close(reason) ∥ NotifyPeerClosed ∥ manager close
// paths ∥ "copy finished": the onClosed callback runs exactly once, nothing panics
// afterwards and no goroutine of the tunnel survives once the endpoints are closed.
//
// Generator: per trial a real DefaultTunnelManager + a real started Tunnel over two
// net.Pipe endpoints (optionally with bytes moved first); K in {2,4,12} closers drawn
// from {Close(reason), NotifyPeerClosed, CloseTunnel, OnTunnelClosed, OnTunnelError(fatal),
// CloseAll, manager.Close} are released from a spin barrier after seeded spins, plus a
// completion-path racer (far ends closed = copy finished, one far end closed, parent
// context cancelled, none). Trials are judged per batch, after a goroutine diff showed
// that every goroutine of the batch is gone (so no later callback can arrive).

// ---- spin barrier (same recipe in every C16 package) -------------------------------

type c16Race struct {
	ready   atomic.Int32
	flag    atomic.Uint32
	inside  atomic.Int32
	maxIn   atomic.Int32
	timeout atomic.Int32
}

var c16Sink atomic.Uint64

func c16Spin(n int) {
	for i := 0; i < n; i++ {
		c16Sink.Add(1)
	}
}

// c16RunRace: the first nCount fns are "closers" (counted for the overlap gauge), the
// rest are completion-path racers released from the same barrier.
func c16RunRace(fns []func(), nCount int, spins []int) (maxInside int, ok bool) {
	r := &c16Race{}
	var wg sync.WaitGroup
	k := len(fns)
	wg.Add(k)
	for i := 0; i < k; i++ {
		go func(i int) {
			defer wg.Done()
			r.ready.Add(1)
			n := 0
			for r.flag.Load() == 0 {
				n++
				if n > 1<<16 {
					runtime.Gosched()
				}
				if n > 1<<26 {
					r.timeout.Add(1)
					break
				}
			}
			c16Spin(spins[i])
			if i < nCount {
				in := r.inside.Add(1)
				for {
					m := r.maxIn.Load()
					if in <= m || r.maxIn.CompareAndSwap(m, in) {
						break
					}
				}
			}
			fns[i]()
			if i < nCount {
				r.inside.Add(-1)
			}
		}(i)
	}
	deadline := time.Now().Add(10 * time.Second)
	for int(r.ready.Load()) < k {
		runtime.Gosched()
		if time.Now().After(deadline) {
			r.timeout.Add(1)
			break
		}
	}
	r.flag.Store(1)
	done := make(chan struct{})
	go func() { wg.Wait(); close(done) }()
	select {
	case <-done:
	case <-time.After(20 * time.Second):
		return int(r.maxIn.Load()), false
	}
	return int(r.maxIn.Load()), r.timeout.Load() == 0
}

// ---- doubles --------------------------------------------------------------------------

type c16Client struct{ notifies atomic.Int32 }

func (c *c16Client) SendTunnelCloseNotify(targetClientID int64, tunnelID, mappingID, reason string) error {
	c.notifies.Add(1)
	return nil
}

type c16Trial struct {
	desc     map[string]any
	onClosed atomic.Int32
	reasons  sync.Map // goroutine-safe record of reasons passed to onClosed
	client   *c16Client
	tun      *Tunnel
	mgr      *DefaultTunnelManager
	started  bool
	overlap  bool
	path     string
	k        int
}

var c16CloserNames = []string{"Close", "NotifyPeerClosed", "CloseTunnel", "OnTunnelClosed", "OnTunnelError", "CloseAll", "ManagerClose"}

func c16Closer(tr *c16Trial, kind int, i int) func() {
	t, m, id := tr.tun, tr.mgr, tr.tun.id
	switch kind {
	case 0:
		reason := CloseReason(i % 6)
		return func() { _ = t.Close(reason, errors.New("c16")) }
	case 1:
		return func() { t.NotifyPeerClosed("peer", &TunnelStats{}) }
	case 2:
		return func() { _ = m.CloseTunnel(id, CloseReasonNormal) }
	case 3:
		return func() { m.OnTunnelClosed(id, "m", "peer_closed", 1, 2, 3) }
	case 4:
		return func() { m.OnTunnelError(id, "m", "E", "fatal", false) }
	case 5:
		return func() { m.CloseAll() }
	default:
		return func() { _ = m.Close() }
	}
}

func TestVerifC16Tunnel(t *testing.T) {
	vk.Quiet()
	run := vk.Start(t, "C16", "tunnel")
	defer run.Finish()
	run.Rule("trial = started(or not) Tunnel over net.Pipe endpoints x K in {2,4,12} closers from 7 close entry points x completion path in {none, copy-finished, local-eof, ctx-cancel, not-started} x bytes moved first or not; spin barrier + seeded spins; distinct = (path,K,closer-mix class,overlap observed)")
	r := run.Rand("trials")
	n := run.Pick(15000, 300000)
	batch := 1000
	paths := []string{"none", "none", "copy-finished", "local-eof", "ctx-cancel", "not-started"}
	ks := []int{2, 4, 12}
	run.Floor("overlap_runs", 100)
	run.Floor("overlap_runs_copy_finished", 100)
	scope := []string{"tunnox-core/internal/client/tunnel", "tunnox-core/internal/utils/iocopy"}

	for done := 0; done < n && run.Violations() < 20 && run.Counter("leak_violations") < 3; done += batch {
		snap := vk.SnapshotGoroutines()
		trials := make([]*c16Trial, 0, batch)
		var cleanup []func()
		for b := 0; b < batch && done+b < n; b++ {
			path := paths[r.Intn(len(paths))]
			k := ks[r.Intn(len(ks))]
			move := r.Intn(4) == 0
			mixed := r.Intn(3) != 0 // false: all closers use Tunnel.Close directly
			spins := make([]int, k+1)
			for i := range spins {
				if r.Intn(2) == 0 {
					spins[i] = r.Intn(300)
				}
			}
			kinds := make([]int, k)
			for i := range kinds {
				if mixed {
					kinds[i] = r.Intn(len(c16CloserNames))
				}
			}
			tr := &c16Trial{path: path, k: k, client: &c16Client{}}
			tr.desc = map[string]any{"trial": done + b, "path": path, "K": k, "closers": kinds, "spins": spins, "bytes_moved_first": move}
			run.Eval(1)

			pctx, cancel := context.WithCancel(context.Background())
			role := TunnelRole(r.Intn(2))
			tr.mgr = NewTunnelManager(pctx, role)
			local, farLocal := net.Pipe()
			tun, farTunnel := net.Pipe()
			cfg := &TunnelConfig{
				ID: fmt.Sprintf("c16-%d", done+b), MappingID: "m", Role: role, Protocol: "tcp",
				LocalConn: local, TunnelConn: tun, TunnelRWC: tun, TargetClient: int64(r.Intn(2)),
				Manager: tr.mgr, Client: tr.client,
			}
			cfg.OnClosed = func(reason CloseReason, err error) {
				c := tr.onClosed.Add(1)
				tr.reasons.Store(c, reason.String())
			}
			tr.tun = NewTunnel(cfg)
			if err := tr.mgr.RegisterTunnel(tr.tun); err != nil {
				t.Fatalf("c16: register: %v", err)
			}
			if path != "not-started" {
				if err := tr.tun.Start(); err != nil {
					t.Fatalf("c16: start: %v", err)
				}
				tr.started = true
			}
			if move && tr.started {
				// push a few bytes local -> tunnel so the copy loops are really running
				go func() { farLocal.Write([]byte("c16-bytes")) }()
				buf := make([]byte, 9)
				farTunnel.SetReadDeadline(time.Now().Add(5 * time.Second))
				if _, err := farTunnel.Read(buf); err != nil {
					run.Count("harness_move_failed", 1)
				}
				farTunnel.SetReadDeadline(time.Time{})
			}
			fns := make([]func(), 0, k+1)
			for i := 0; i < k; i++ {
				fns = append(fns, c16Closer(tr, kinds[i], i))
			}
			switch path {
			case "copy-finished":
				fns = append(fns, func() { farLocal.Close(); farTunnel.Close() })
			case "local-eof":
				fns = append(fns, func() { farLocal.Close() })
			case "ctx-cancel":
				fns = append(fns, cancel)
			}
			maxIn, ok := c16RunRace(fns, k, spins)
			cleanup = append(cleanup, func() { farLocal.Close(); farTunnel.Close(); local.Close(); tun.Close(); cancel() })
			if !ok {
				run.Count("watchdog", 1)
				continue
			}
			run.Max("max_concurrent_closers", int64(maxIn))
			tr.overlap = maxIn >= 2
			if tr.overlap {
				run.Count("overlap_runs", 1)
				if path == "copy-finished" {
					run.Count("overlap_runs_copy_finished", 1)
				}
			}
			cls := "direct"
			if mixed {
				cls = "mixed"
			}
			run.Distinct(fmt.Sprintf("%s|K=%d|%s|overlap=%v|moved=%v", path, k, cls, tr.overlap, move))
			trials = append(trials, tr)
		}
		// unblock all pending I/O of the batch, then wait until no goroutine is left
		for _, f := range cleanup {
			f()
		}
		leaked := snap.Leaked(scope, nil, 3*time.Second)
		if len(leaked) > 0 {
			sum := vk.FrameSummary(leaked)
			run.Violation("C16:tunnel|goroutine-left|"+c16LeakFn(leaked[0]), map[string]any{"batch_start": done, "leaked": len(leaked), "frames": sum, "stack": leaked[0].Stack})
			run.Count("leak_violations", 1) // after 3 the test stops: every further trial would wait the full poll interval
		}
		run.Count("leak_checks", 1)
		// judge the batch: now nothing of it is running any more
		for _, tr := range trials {
			c16JudgeTunnel(run, tr, "after-quiescence")
			for _, op := range []struct {
				name string
				f    func()
			}{
				{"Close", func() { _ = tr.tun.Close(CloseReasonNormal, nil) }},
				{"NotifyPeerClosed", func() { tr.tun.NotifyPeerClosed("again", nil) }},
				{"GetID", func() { tr.tun.GetID() }}, {"GetRole", func() { tr.tun.GetRole() }},
				{"GetState", func() { tr.tun.GetState() }}, {"GetStats", func() { tr.tun.GetStats() }},
				{"Start", func() { _ = tr.tun.Start() }},
				{"mgr.CloseTunnel", func() { _ = tr.mgr.CloseTunnel(tr.tun.id, CloseReasonNormal) }},
				{"mgr.OnTunnelClosed", func() { tr.mgr.OnTunnelClosed(tr.tun.id, "m", "x", 0, 0, 0) }},
				{"mgr.CloseAll", func() { tr.mgr.CloseAll() }},
				{"mgr.ListTunnels", func() { tr.mgr.ListTunnels() }},
				{"mgr.CountTunnels", func() { tr.mgr.CountTunnels() }},
				{"mgr.Close", func() { _ = tr.mgr.Close() }},
			} {
				name, f := op.name, op.f
				func() {
					defer func() {
						if e := recover(); e != nil {
							run.Violation("C16:tunnel|panic-after-close|op="+name, map[string]any{"case": tr.desc, "panic": fmt.Sprint(e)})
						}
					}()
					f()
				}()
			}
			c16JudgeTunnel(run, tr, "after-post-close-calls")
		}
		// post-close calls (e.g. Start on a closed tunnel) must not have started anything either
		if l := snap.Leaked(scope, nil, time.Second); len(l) > 0 {
			run.Violation("C16:tunnel|goroutine-left-after-post-close-calls", map[string]any{"batch_start": done, "frames": vk.FrameSummary(l), "stack": l[0].Stack})
			run.Count("leak_violations", 1) // after 3 the test stops: every further trial would wait the full poll interval
		}
	}
}

func c16JudgeTunnel(run *vk.Run, tr *c16Trial, when string) {
	got := tr.onClosed.Load()
	if got != 1 {
		cls := fmt.Sprint(got)
		if got >= 3 {
			cls = "3+"
		}
		var reasons []any
		tr.reasons.Range(func(k, v any) bool { reasons = append(reasons, v); return true })
		if when == "after-quiescence" {
			run.Count("trials_onClosed_not_once_path_"+tr.path, 1)
		}
		run.Violation("C16:tunnel|onClosed="+cls, map[string]any{"case": tr.desc, "onClosed_runs": got, "reasons": reasons, "when": when, "overlap_observed": tr.overlap})
	}
	if n := tr.client.notifies.Load(); n > 1 {
		run.Count("close_notify_sent_more_than_once", 1)
	}
	if st := tr.tun.GetState(); st != TunnelStateClosed {
		run.Violation(fmt.Sprintf("C16:tunnel|state-after-close=%d", st), map[string]any{"case": tr.desc, "when": when})
	}
	if tr.mgr.GetTunnel(tr.tun.id) != nil {
		run.Violation("C16:tunnel|still-registered-after-close", map[string]any{"case": tr.desc, "when": when})
	}
}

// c16LeakFn names a leaked goroutine by its entry function (outermost tunnox-core
// frame): stable across the states/inner frames the goroutine happens to be in.
func c16LeakFn(g vk.Goroutine) string {
	fn := "?"
	for _, l := range strings.Split(g.Stack, "\n") {
		if strings.HasPrefix(l, "tunnox-core/") {
			fn = l
			if i := strings.LastIndex(fn, "("); i > 0 {
				fn = fn[:i]
			}
		}
	}
	return fn
}
