//go:build verif && verif_c16

package tunnel

import (
	"context"
	"fmt"
	"net"
	"sync/atomic"
	"testing"
	"time"

	vk "tunnox-core/internal/verifkit"
)

// C16 (client tunnel, Close while Start is running) — a registered tunnel is closed from
// another goroutine (peer close notification, CloseAll, fatal tunnel error) while
// Tunnel.Start() is between reading the tunnel state and launching its goroutines. That
// window contains the call to manager.Ctx(); the harness' manager (the real
// DefaultTunnelManager behind the public TunnelManager interface) uses that call as a hook:
//   - "close-inside-window": Ctx() lets K closers run to completion before it returns,
//   - "close-released-in-window": Ctx() releases the closers' spin barrier and returns,
//   - "free": Start and the closers leave one spin barrier together.
// Whatever the order, after everything was unblocked and no goroutine is left: OnClosed ran
// exactly once, the tunnel is Closed and unknown to the manager.

type c16HookMgr struct {
	*DefaultTunnelManager
	hook atomic.Pointer[func()]
}

func (m *c16HookMgr) Ctx() context.Context {
	if h := m.hook.Swap(nil); h != nil {
		(*h)()
	}
	return m.DefaultTunnelManager.Ctx()
}

type c16STun struct {
	tun      *Tunnel
	mgr      *c16HookMgr
	onClosed atomic.Int32
	desc     map[string]any
	unblock  func()
}

func TestVerifC16TunnelStartRace(t *testing.T) {
	vk.Quiet()
	run := vk.Start(t, "C16", "tunnel-start-race")
	defer run.Finish()
	run.Rule("trial = registered, not yet started Tunnel x mode in {close-inside-window, close-released-in-window, free} (window = manager.Ctx() call inside Start) x K in {1,2,4} closers from {Close, NotifyPeerClosed, CloseTunnel, OnTunnelClosed, OnTunnelError, CloseAll}; distinct = (mode,K,closer kinds class,start result)")
	r := run.Rand("trials")
	n := run.Pick(3000, 30000)
	batch := 500
	run.Floor("close_completed_inside_start_window", 100)
	run.Floor("closers_released_inside_start_window", 100)
	run.Floor("tunnels_judged", 100)
	scope := []string{"tunnox-core/internal/client/tunnel", "tunnox-core/internal/utils/iocopy"}
	modes := []string{"close-inside-window", "close-inside-window", "close-released-in-window", "free"}
	for done := 0; done < n && run.Violations() < 20 && run.Counter("leak_violations") < 3; done += batch {
		snap := vk.SnapshotGoroutines()
		var all []*c16STun
		for b := 0; b < batch && done+b < n; b++ {
			trial := done + b
			mode := modes[r.Intn(len(modes))]
			k := []int{1, 2, 4}[r.Intn(3)]
			kinds := make([]int, k)
			for i := range kinds {
				kinds[i] = r.Intn(6) // c16CloserNames[0..5], manager.Close excluded (it would end the manager ctx too)
			}
			spins := make([]int, k+1)
			for i := range spins {
				if r.Intn(2) == 0 {
					spins[i] = r.Intn(300)
				}
			}
			desc := map[string]any{"trial": trial, "mode": mode, "K": k, "closers": kinds, "spins": spins}
			run.Case("C16:tunnel|close-during-start", desc)
			run.Eval(1)
			pctx, cancel := context.WithCancel(context.Background())
			mgr := &c16HookMgr{DefaultTunnelManager: NewTunnelManager(pctx, TunnelRoleListen)}
			st := &c16STun{mgr: mgr, desc: desc}
			local, farL := net.Pipe()
			tun, farT := net.Pipe()
			st.unblock = func() { farL.Close(); farT.Close(); local.Close(); tun.Close(); cancel() }
			st.tun = NewTunnel(&TunnelConfig{ID: fmt.Sprintf("c16s-%d", trial), MappingID: "m", Role: TunnelRoleListen, Protocol: "tcp",
				LocalConn: local, TunnelConn: tun, TunnelRWC: tun, TargetClient: int64(r.Intn(2)), Manager: mgr, Client: &c16Client{},
				OnClosed: func(CloseReason, error) { st.onClosed.Add(1) }})
			if err := mgr.DefaultTunnelManager.RegisterTunnel(st.tun); err != nil {
				t.Fatalf("c16: register: %v", err)
			}
			all = append(all, st)
			// closers reuse the entry points of the main tunnel monitor
			tr := &c16Trial{tun: st.tun, mgr: mgr.DefaultTunnelManager}
			closers := make([]func(), k)
			for i := range closers {
				closers[i] = c16Closer(tr, kinds[i], i)
			}
			var startErr error
			ok := true
			switch mode {
			case "free":
				fns := append(append([]func(){}, closers...), func() { startErr = st.tun.Start() })
				_, ok = c16RunRace(fns, k, spins)
			default:
				raceDone := make(chan bool, 1)
				inWindow := func() {
					if mode == "close-inside-window" {
						_, o := c16RunRace(closers, k, spins[:k])
						raceDone <- o
						run.Count("close_completed_inside_start_window", 1)
					} else {
						go func() { _, o := c16RunRace(closers, k, spins[:k]); raceDone <- o }()
						run.Count("closers_released_inside_start_window", 1)
					}
				}
				mgr.hook.Store(&inWindow)
				started := make(chan struct{})
				go func() { defer close(started); startErr = st.tun.Start() }()
				select {
				case <-started:
				case <-time.After(20 * time.Second):
					ok = false
				}
				if ok {
					select {
					case ok = <-raceDone:
					case <-time.After(20 * time.Second):
						ok = false
					}
				}
			}
			if !ok {
				run.Count("watchdog", 1)
				st.tun = nil // not judged
				continue
			}
			if startErr != nil {
				// what the mapping handler does with a tunnel that failed to start
				mgr.UnregisterTunnel(st.tun.GetID())
				run.Count("start_refused", 1)
			} else {
				run.Count("start_succeeded", 1)
			}
			mixed := "same"
			for _, kd := range kinds {
				if kd != kinds[0] {
					mixed = "mixed"
				}
			}
			run.Distinct(fmt.Sprintf("%s|K=%d|%s|first=%s|startOK=%v", mode, k, mixed, c16CloserNames[kinds[0]], startErr == nil))
		}
		for _, st := range all {
			st.unblock()
		}
		if l := snap.Leaked(scope, nil, 2*time.Second); len(l) > 0 {
			run.Violation("C16:tunnel|close-during-start|goroutine-left|"+c16LeakFn(l[0]), map[string]any{"batch_start": done, "leaked": len(l), "frames": vk.FrameSummary(l), "stack": l[0].Stack})
			run.Count("leak_violations", 1)
		}
		run.Count("leak_checks", 1)
		for _, st := range all {
			if st.tun == nil {
				continue
			}
			run.Count("tunnels_judged", 1)
			if got := st.onClosed.Load(); got != 1 {
				cls := fmt.Sprint(got)
				if got >= 3 {
					cls = "3+"
				}
				run.Violation("C16:tunnel|close-during-start|onClosed="+cls+"|mode="+fmt.Sprint(st.desc["mode"]), map[string]any{"case": st.desc, "onClosed_runs": got, "state": st.tun.GetState()})
			}
			if s := st.tun.GetState(); s != TunnelStateClosed {
				run.Violation(fmt.Sprintf("C16:tunnel|close-during-start|state-after-close=%d", s), map[string]any{"case": st.desc})
			}
			if st.mgr.GetTunnel(st.tun.GetID()) != nil {
				run.Violation("C16:tunnel|close-during-start|still-registered-after-close", map[string]any{"case": st.desc})
			}
		}
	}
}
