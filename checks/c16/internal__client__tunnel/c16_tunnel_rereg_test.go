//go:build verif && verif_c16

package tunnel

import (
	"context"
	"errors"
	"fmt"
	"net"
	"sync"
	"sync/atomic"
	"testing"
	"time"

	vk "tunnox-core/internal/verifkit"
)

// C16 (client tunnel, id re-use while the old tunnel is still closing) — a peer retry
// re-uses a tunnel id: tunnel T1(id) is in the middle of Close (its connection Close is
// slow: gated), a NEW tunnel T2 with the same id is offered to the manager; if the manager
// accepts it, it is started (exactly what BaseMappingHandler does), otherwise its
// connections are closed and, optionally, the registration is retried after T1 is gone.
// Then manager.Close()/CloseAll runs from K goroutines. Every tunnel that was registered
// successfully and started must be closed by that: its connections closed and its
// onClosed callback run exactly once when the closers have returned — and still exactly
// once, with no goroutine left, after all pending I/O was unblocked.

type c16GatedConn struct {
	net.Conn
	closes  atomic.Int32
	gate    chan struct{} // nil: not gated
	entered chan struct{}
	once    sync.Once
}

func (c *c16GatedConn) Close() error {
	c.closes.Add(1)
	if c.gate != nil {
		c.once.Do(func() { close(c.entered) })
		<-c.gate
	}
	return c.Conn.Close()
}

type c16RTun struct {
	name        string
	tun         *Tunnel
	onClosed    atomic.Int32
	local, rwc  *c16GatedConn
	farL, farT  net.Conn
	started     bool
	desc        map[string]any
	closedByMgr bool
}

func c16NewRTun(name, id string, mgr *DefaultTunnelManager, gate chan struct{}, desc map[string]any) *c16RTun {
	rt := &c16RTun{name: name, desc: desc}
	l, fl := net.Pipe()
	t, ft := net.Pipe()
	rt.local = &c16GatedConn{Conn: l, gate: gate, entered: make(chan struct{})}
	rt.rwc = &c16GatedConn{Conn: t}
	rt.farL, rt.farT = fl, ft
	rt.tun = NewTunnel(&TunnelConfig{ID: id, MappingID: "m", Role: TunnelRoleListen, Protocol: "tcp",
		LocalConn: rt.local, TunnelConn: t, TunnelRWC: rt.rwc, Manager: mgr, Client: &c16Client{},
		OnClosed: func(CloseReason, error) { rt.onClosed.Add(1) }})
	return rt
}

func (rt *c16RTun) unblock() {
	rt.farL.Close()
	rt.farT.Close()
	rt.local.Conn.Close()
	rt.rwc.Conn.Close()
}

func TestVerifC16TunnelReRegister(t *testing.T) {
	vk.Quiet()
	run := vk.Start(t, "C16", "tunnel-reregister")
	defer run.Finish()
	run.Rule("trial = T1(id) started, Close(T1) begun with its connection Close gated (held) or not x a new tunnel T2 with the same id registered (and started if accepted) while T1 is held / after T1 finished x retry of a refused registration after T1 is gone x K in {1,2,4} manager.Close/CloseAll callers from a spin barrier; distinct = (timing, accepted?, retry, K, closer kind)")
	r := run.Rand("trials")
	n := run.Pick(2000, 20000)
	batch := 250
	run.Floor("reregister_attempts_while_old_tunnel_closing", 100)
	run.Floor("started_tunnels_judged", 100)
	scope := []string{"tunnox-core/internal/client/tunnel", "tunnox-core/internal/utils/iocopy"}
	for done := 0; done < n && run.Violations() < 20 && run.Counter("leak_violations") < 3 && run.Counter("not_closed") < 10; done += batch {
		snap := vk.SnapshotGoroutines()
		var all []*c16RTun
		for b := 0; b < batch && done+b < n; b++ {
			trial := done + b
			held := r.Intn(4) != 0
			retry := r.Intn(2) == 0
			k := []int{1, 2, 4}[r.Intn(3)]
			useCloseAll := r.Intn(3) == 0
			spins := make([]int, k)
			for i := range spins {
				if r.Intn(2) == 0 {
					spins[i] = r.Intn(300)
				}
			}
			desc := map[string]any{"trial": trial, "old_tunnel_close_held_in_conn_close": held, "retry_after_refusal": retry, "K": k, "close_all": useCloseAll, "spins": spins}
			run.Case("C16:tunnel|reregister", desc)
			run.Eval(1)
			pctx, cancel := context.WithCancel(context.Background())
			mgr := NewTunnelManager(pctx, TunnelRoleListen)
			id := fmt.Sprintf("c16r-%d", trial)
			var gate chan struct{}
			if held {
				gate = make(chan struct{})
			}
			t1 := c16NewRTun("T1", id, mgr, gate, desc)
			if err := mgr.RegisterTunnel(t1.tun); err != nil {
				t.Fatalf("c16: register T1: %v", err)
			}
			if err := t1.tun.Start(); err != nil {
				t.Fatalf("c16: start T1: %v", err)
			}
			t1.started = true
			trialTuns := []*c16RTun{t1}
			t1Closed := make(chan struct{})
			go func() { defer close(t1Closed); _ = t1.tun.Close(CloseReasonError, errors.New("c16 peer reset")) }()
			ok := true
			if held {
				select {
				case <-t1.local.entered: // T1 is Closing and sits in its connection Close
				case <-time.After(10 * time.Second):
					ok = false
				}
				run.Count("reregister_attempts_while_old_tunnel_closing", 1)
			} else {
				select {
				case <-t1Closed:
				case <-time.After(10 * time.Second):
					ok = false
				}
			}
			// the peer's retry arrives with the same tunnel id
			offer := func(name string) {
				tn := c16NewRTun(name, id, mgr, nil, desc)
				trialTuns = append(trialTuns, tn)
				if err := mgr.RegisterTunnel(tn.tun); err != nil {
					run.Count("reregistration_refused", 1)
					tn.unblock() // what the caller does with a refused tunnel
					return
				}
				run.Count("reregistration_accepted", 1)
				if err := tn.tun.Start(); err == nil {
					tn.started = true
				}
			}
			if ok {
				offer("T2")
			}
			if held {
				close(gate)
			}
			select {
			case <-t1Closed:
			case <-time.After(10 * time.Second):
				ok = false
			}
			if ok && retry && !trialTuns[len(trialTuns)-1].started {
				offer("T3")
			}
			// ---- manager shutdown ------------------------------------------------------------
			if ok {
				fns := make([]func(), k)
				for i := range fns {
					if useCloseAll {
						fns[i] = func() { mgr.CloseAll() }
					} else {
						fns[i] = func() { _ = mgr.Close() }
					}
				}
				_, ok = c16RunRace(fns, k, spins)
			}
			all = append(all, trialTuns...)
			cancel()
			if !ok {
				run.Count("watchdog", 1)
				for _, tn := range trialTuns {
					tn.started = false // not judged
				}
				continue
			}
			acc := "refused"
			for _, tn := range trialTuns[1:] {
				if tn.started {
					acc = "accepted:" + tn.name
				}
			}
			run.Distinct(fmt.Sprintf("held=%v|%s|retry=%v|K=%d|closeAll=%v", held, acc, retry, k, useCloseAll))
			// ---- oracle 1: when the manager's Close has returned ------------------------------
			for _, tn := range trialTuns {
				if !tn.started {
					continue
				}
				run.Count("started_tunnels_judged", 1)
				if tn.onClosed.Load() != 1 || tn.local.closes.Load() < 1 || tn.rwc.closes.Load() < 1 {
					run.Count("not_closed", 1)
					run.Violation("C16:tunnel|started-tunnel-not-closed-by-manager-close|"+tn.name+"|old-close-held="+fmt.Sprint(held),
						map[string]any{"case": desc, "tunnel": tn.name, "onClosed_runs": tn.onClosed.Load(), "local_conn_close_calls": tn.local.closes.Load(),
							"tunnel_conn_close_calls": tn.rwc.closes.Load(), "state": tn.tun.GetState(), "still_known_to_manager": mgr.GetTunnel(id) == tn.tun})
				} else {
					tn.closedByMgr = true
				}
			}
		}
		// ---- oracle 2: after all pending I/O was unblocked ---------------------------------------
		for _, tn := range all {
			tn.unblock()
		}
		if l := snap.Leaked(scope, nil, 2*time.Second); len(l) > 0 {
			run.Violation("C16:tunnel|reregister|goroutine-left|"+c16LeakFn(l[0]), map[string]any{"batch_start": done, "leaked": len(l), "frames": vk.FrameSummary(l), "stack": l[0].Stack})
			run.Count("leak_violations", 1)
		}
		for _, tn := range all {
			if tn.started && tn.closedByMgr && tn.onClosed.Load() != 1 {
				run.Violation(fmt.Sprintf("C16:tunnel|reregister|onClosed=%d-after-quiescence", tn.onClosed.Load()), map[string]any{"case": tn.desc, "tunnel": tn.name})
			}
		}
		run.Count("leak_checks", 1)
	}
}
