//go:build verif && verif_c16

package stream

import (
	"bytes"
	"context"
	"fmt"
	"io"
	"net"
	"runtime"
	"sort"
	"strings"
	"sync"
	"sync/atomic"
	"testing"
	"time"

	"tunnox-core/internal/packet"
	vk "tunnox-core/internal/verifkit"
)

// C16 (stream processor part) — StreamProcessor.Close from K goroutines concurrently with
// ReadPacket / WritePacket / ReadExact / WriteExact in progress: the cleanup runs exactly
// once, the operations in progress return (an error is fine, a panic is not), later
// operations fail cleanly, nothing is left running.
//
// Two generators:
//  * "pipe": the processor sits on a net.Pipe end, a reader goroutine is blocked inside
//    ReadPacket and a writer goroutine inside WritePacket when K closers are released
//    from a spin barrier.
//  * "chunked": the processor reads from / writes to a scripted endpoint that delivers a
//    packet in several chunks; the endpoint releases the closers while the i-th chunk is
//    being returned (i seeded) and either waits for Close to finish ("close-completes-
//    between-chunks": Close runs entirely between two reads of the same packet) or not.

type c16Race struct {
	ready   atomic.Int32
	flag    atomic.Uint32
	inside  atomic.Int32
	maxIn   atomic.Int32
	timeout atomic.Int32
	done    chan struct{}
}

var c16Sink atomic.Uint64

func c16Spin(n int) {
	for i := 0; i < n; i++ {
		c16Sink.Add(1)
	}
}

// c16StartRace parks one goroutine per fn on a spin barrier and returns; release() opens
// the barrier (from any goroutine); wait() blocks until every fn returned.
func c16StartRace(fns []func(), spins []int) *c16Race {
	r := &c16Race{done: make(chan struct{})}
	var wg sync.WaitGroup
	k := len(fns)
	wg.Add(k)
	for i := 0; i < k; i++ {
		go func(i int) {
			defer wg.Done()
			r.ready.Add(1)
			n := 0
			for r.flag.Load() == 0 {
				n++
				if n > 1<<12 {
					runtime.Gosched()
				}
				if n > 1<<26 {
					r.timeout.Add(1)
					break
				}
			}
			c16Spin(spins[i])
			in := r.inside.Add(1)
			for {
				m := r.maxIn.Load()
				if in <= m || r.maxIn.CompareAndSwap(m, in) {
					break
				}
			}
			fns[i]()
			r.inside.Add(-1)
		}(i)
	}
	deadline := time.Now().Add(10 * time.Second)
	for int(r.ready.Load()) < k {
		runtime.Gosched()
		if time.Now().After(deadline) {
			r.timeout.Add(1)
			break
		}
	}
	go func() { wg.Wait(); close(r.done) }()
	return r
}

func (r *c16Race) release() { r.flag.Store(1) }

func (r *c16Race) wait() bool {
	select {
	case <-r.done:
		return r.timeout.Load() == 0
	case <-time.After(20 * time.Second):
		return false
	}
}

// c16Deadlocked decides "hang" logically (DESIGN 2.5b): it takes three goroutine dumps
// 100 ms apart and looks at the goroutines created since snap whose stack contains one of
// the markers (= this trial's closers and operations inside the component). If they are
// the same goroutines, none running or runnable, in the same state and innermost frame
// every time, and at least one of them is parked in a mutex Lock, no progress is possible
// any more: the harness itself is only waiting and feeds nothing.
func c16Deadlocked(snap vk.LeakSnapshot, markers []string) (stacks []string, dead bool) {
	var prev []string
	for round := 0; round < 3; round++ {
		if round > 0 {
			time.Sleep(100 * time.Millisecond)
		}
		var cur []string
		stacks = stacks[:0]
		inLock := false
		for _, g := range vk.Goroutines() {
			if _, old := snap[g.ID]; old {
				continue
			}
			involved := false
			for _, m := range markers {
				if strings.Contains(g.Stack, m) {
					involved = true
				}
			}
			if !involved {
				continue
			}
			if strings.HasPrefix(g.State, "running") || strings.HasPrefix(g.State, "runnable") {
				return nil, false
			}
			if strings.Contains(g.Stack, "sync.(*Mutex).Lock") || strings.Contains(g.Stack, "sync.(*RWMutex).") {
				inLock = true
			}
			cur = append(cur, g.ID+"|"+strings.SplitN(g.State, ",", 2)[0]+"|"+g.Top)
			st := g.Stack
			if len(st) > 1500 {
				st = st[:1500]
			}
			stacks = append(stacks, st)
		}
		sort.Strings(cur)
		if len(cur) == 0 || !inLock || (round > 0 && strings.Join(cur, ";") != strings.Join(prev, ";")) {
			return nil, false
		}
		prev = cur
	}
	return stacks, true
}

// c16WaitingOnOwnTimer: goroutines created since snap with a StreamProcessor write method on
// their stack that are parked in sleep, or in a select inside a token-bucket / limiter
// wait, the same ones in three dumps 100 ms apart. Consulted only after every Close has
// returned: such a writer is woken by nothing but a timer the component started itself.
func c16WaitingOnOwnTimer(snap vk.LeakSnapshot) []string {
	var prev, stacks []string
	for round := 0; round < 3; round++ {
		if round > 0 {
			time.Sleep(100 * time.Millisecond)
		}
		var cur []string
		stacks = stacks[:0]
		for _, g := range vk.Goroutines() {
			if _, old := snap[g.ID]; old {
				continue
			}
			if !strings.Contains(g.Stack, "stream.(*StreamProcessor).Write") {
				continue
			}
			st := strings.SplitN(g.State, ",", 2)[0]
			onTimer := st == "sleep" || (st == "select" && (strings.Contains(g.Top, "WaitForTokens") || strings.Contains(g.Top, "rate.(*Limiter)")))
			if !onTimer {
				continue
			}
			cur = append(cur, g.ID)
			stk := g.Stack
			if len(stk) > 1200 {
				stk = stk[:1200]
			}
			stacks = append(stacks, stk)
		}
		sort.Strings(cur)
		if len(cur) == 0 || (round > 0 && strings.Join(cur, ",") != strings.Join(prev, ",")) {
			return nil
		}
		prev = cur
	}
	return append([]string(nil), stacks...)
}

// c16WaitOrHang waits for done. Normal trials finish within microseconds; after 1 s the
// logical hang classifier is consulted every 2 s; the 20 s cap is an inconclusive watchdog.
func c16WaitOrHang(done <-chan struct{}, snap vk.LeakSnapshot, markers []string, afterClose bool) (finished bool, stacks []string) {
	wait := time.Second
	if afterClose {
		wait = 100 * time.Millisecond // after Close the operations end within microseconds
	}
	deadline := time.Now().Add(20 * time.Second)
	for {
		select {
		case <-done:
			return true, nil
		case <-time.After(wait):
		}
		if st, dead := c16Deadlocked(snap, markers); dead {
			return false, st
		}
		if afterClose {
			if st := c16WaitingOnOwnTimer(snap); st != nil {
				return false, append([]string{"TIMER"}, st...)
			}
		}
		if time.Now().After(deadline) {
			return false, nil
		}
		wait = 2 * time.Second
	}
}

// ---- scripted endpoint ------------------------------------------------------------------

// c16Script delivers `data` in the given chunk sizes; after the script it blocks until
// closed. At chunk index trigger it releases the race and, if waitClose, waits until all
// closers returned before handing the chunk to the caller.
type c16Script struct {
	data      []byte
	cuts      []int
	idx       int
	trigger   int
	waitClose bool
	race      *c16Race
	closed    chan struct{}
	closeOnce sync.Once
	closes    atomic.Int32
	fired     atomic.Bool
	// writer side
	writes       int
	writeTrigger int
	wrote        bytes.Buffer
}

func (s *c16Script) fire() {
	if s.race != nil && s.fired.CompareAndSwap(false, true) {
		s.race.release()
		if s.waitClose {
			s.race.wait()
		}
	}
}

func (s *c16Script) Read(p []byte) (int, error) {
	select {
	case <-s.closed:
		return 0, io.ErrClosedPipe
	default:
	}
	if s.idx >= len(s.cuts) || len(s.data) == 0 {
		<-s.closed
		return 0, io.ErrClosedPipe
	}
	n := s.cuts[s.idx]
	if n > len(s.data) {
		n = len(s.data)
	}
	if n > len(p) {
		n = len(p)
	}
	copy(p, s.data[:n])
	s.data = s.data[n:]
	if s.idx == s.trigger {
		s.fire()
	}
	s.idx++
	return n, nil
}

func (s *c16Script) Write(p []byte) (int, error) {
	select {
	case <-s.closed:
		return 0, io.ErrClosedPipe
	default:
	}
	s.wrote.Write(p)
	if s.writes == s.writeTrigger {
		s.fire()
	}
	s.writes++
	return len(p), nil
}

func (s *c16Script) Close() error {
	s.closes.Add(1)
	s.closeOnce.Do(func() { close(s.closed) })
	return nil
}

func c16Packet(size int) *packet.TransferPacket {
	return &packet.TransferPacket{PacketType: packet.TunnelData, Payload: bytes.Repeat([]byte{0x5a}, size)}
}

type c16OpResult struct {
	name     string
	panicked atomic.Value // string
	returned atomic.Bool
}

// c16PanicSite names the innermost tunnox-core frames below the panic (called from a
// deferred function while the panicking stack is still there).
func c16PanicSite() string {
	pc := make([]uintptr, 40)
	n := runtime.Callers(3, pc)
	fr := runtime.CallersFrames(pc[:n])
	var out []string
	for {
		f, more := fr.Next()
		if strings.HasPrefix(f.Function, "tunnox-core/") && !strings.Contains(f.Function, "c16") && !strings.Contains(f.Function, "VerifC16") {
			out = append(out, fmt.Sprintf("%s:%d", f.Function[strings.LastIndex(f.Function, "/")+1:], f.Line))
			if len(out) == 3 {
				break
			}
		}
		if !more {
			break
		}
	}
	return strings.Join(out, " < ")
}

func c16Do(res *c16OpResult, f func()) {
	defer func() {
		if e := recover(); e != nil {
			res.panicked.Store(fmt.Sprint(e) + " @ " + c16PanicSite())
		}
		res.returned.Store(true)
	}()
	f()
}

func TestVerifC16Stream(t *testing.T) {
	vk.Quiet()
	run := vk.Start(t, "C16", "stream")
	defer run.Finish()
	run.Rule("trial = StreamProcessor on (pipe | chunked scripted endpoint) x operation in progress in {ReadPacket, ReadExact, ReadAvailable, WritePacket(compress?), WriteExact} x K in {2,4,12} closers (Close/CloseWithResult/ManagerBase.Close) from a spin barrier released at chunk i x close-completes-between-chunks or free-running x parent-cancel racer; distinct = (mode, op, trigger chunk, K, waitClose, overlap)")
	r := run.Rand("trials")
	n := run.Pick(12000, 120000)
	batch := 1000
	ks := []int{2, 4, 12}
	run.Floor("overlap_runs", 100)
	run.Floor("op_in_progress_when_closed", 100)
	run.Floor("close_between_chunks_runs", 100)
	run.Floor("rate_limited_write_ended_by_close", 100)
	scope := []string{"tunnox-core/internal/stream", "tunnox-core/internal/utils"}
	readOps := []string{"ReadPacket", "ReadExact", "ReadAvailable", "ReadExactZeroCopy"}
	writeOps := []string{"WritePacket", "WritePacketCompressed", "WriteExact", "WritePacketRateLimited", "WritePacketRateLimitedSlow"}

	for done := 0; done < n && run.Violations() < 20 && run.Counter("leak_violations") < 3 && run.Counter("close_deadlocks") < 3; done += batch {
		snap := vk.SnapshotGoroutines()
		for b := 0; b < batch && done+b < n && run.Counter("close_deadlocks") < 3; b++ {
			trial := done + b
			k := ks[r.Intn(len(ks))]
			mode := []string{"pipe", "chunked", "chunked"}[r.Intn(3)]
			rop := readOps[r.Intn(len(readOps))]
			wop := writeOps[r.Intn(len(writeOps))]
			size := []int{0, 1, 5, 300, 5000, 70000}[r.Intn(6)]
			waitClose := r.Intn(2) == 0
			parentCancel := r.Intn(4) == 0
			spins := make([]int, k+1)
			for i := range spins {
				if r.Intn(2) == 0 {
					spins[i] = r.Intn(300)
				}
			}
			// wire image of one packet, produced by the real writer
			var wire bytes.Buffer
			enc := NewStreamProcessor(bytes.NewReader(nil), &wire, context.Background())
			if _, err := enc.WritePacket(c16Packet(size), false, 0); err != nil {
				t.Fatalf("c16: encode: %v", err)
			}
			enc.Close()
			img := append([]byte(nil), wire.Bytes()...)
			// chunking: type | size | body in 1..3 pieces (seeded)
			cuts := []int{1, 4}
			rest := len(img) - 5
			for rest > 0 {
				c := 1 + r.Intn(rest)
				if len(cuts) >= 4 {
					c = rest
				}
				cuts = append(cuts, c)
				rest -= c
			}
			trigger := r.Intn(len(cuts))
			wtrigger := r.Intn(3)
			if wop == "WritePacketRateLimitedSlow" {
				// 200 B/s: the body write waits for tokens (seconds) before it reaches the
				// endpoint, so the closers are released at the header writes (or by the reader)
				// and Close arrives while the writer is waiting
				wtrigger = r.Intn(2)
				if size < 5000 {
					size = 5000
				}
			}
			desc := map[string]any{"trial": trial, "mode": mode, "K": k, "read_op": rop, "write_op": wop, "payload": size,
				"chunks": cuts, "release_closers_at_read_chunk": trigger, "release_closers_at_write": wtrigger,
				"close_completes_between_chunks": waitClose, "parent_cancel": parentCancel, "spins": spins}
			run.Eval(1)

			pctx, cancel := context.WithCancel(context.Background())
			var sp *StreamProcessor
			var far net.Conn
			var rs, ws *c16Script
			if mode == "pipe" {
				var near net.Conn
				near, far = net.Pipe()
				sp = NewStreamProcessor(near, near, pctx)
			} else {
				rs = &c16Script{data: img, cuts: cuts, trigger: trigger, waitClose: waitClose, closed: make(chan struct{}), writeTrigger: -1}
				ws = &c16Script{trigger: -1, writeTrigger: wtrigger, waitClose: waitClose, closed: make(chan struct{})}
				sp = NewStreamProcessor(rs, ws, pctx)
			}
			var handlerRuns atomic.Int32
			sp.AddCleanHandler(func() error { handlerRuns.Add(1); return nil })

			fns := make([]func(), 0, k+1)
			for i := 0; i < k; i++ {
				switch (trial + i) % 3 {
				case 0:
					fns = append(fns, func() { sp.Close() })
				case 1:
					fns = append(fns, func() { sp.CloseWithResult() })
				default:
					fns = append(fns, func() { _ = sp.ManagerBase.Close() })
				}
			}
			if parentCancel {
				fns = append(fns, cancel)
			}
			race := c16StartRace(fns, spins)
			if rs != nil {
				rs.race, ws.race = race, race
			}
			// operations in progress
			var slowInterrupted atomic.Bool
			rres, wres := &c16OpResult{name: rop}, &c16OpResult{name: wop}
			var ops sync.WaitGroup
			ops.Add(2)
			go func() {
				defer ops.Done()
				c16Do(rres, func() {
					switch rop {
					case "ReadPacket":
						_, _, _ = sp.ReadPacket()
						_, _, _ = sp.ReadPacket()
					case "ReadExact":
						_, _ = sp.ReadExact(len(img))
						_, _ = sp.ReadExact(8)
					case "ReadAvailable":
						for i := 0; i < 1000; i++ {
							if _, err := sp.ReadAvailable(1024); err != nil {
								break
							}
						}
					default:
						if zb, err := sp.ReadExactZeroCopy(len(img)); err == nil && zb != nil {
							zb.Close()
						}
						_, _ = sp.ReadExactZeroCopy(8)
					}
				})
			}()
			go func() {
				defer ops.Done()
				c16Do(wres, func() {
					pk := c16Packet(size)
					for i := 0; i < 3; i++ {
						var err error
						switch wop {
						case "WritePacket":
							_, err = sp.WritePacket(pk, false, 0)
						case "WritePacketCompressed":
							_, err = sp.WritePacket(pk, true, 0)
						case "WritePacketRateLimitedSlow":
							_, err = sp.WritePacket(pk, false, 200)
							if err != nil {
								slowInterrupted.Store(true) // the limited write was cut short by Close
							}
						case "WritePacketRateLimited":
							_, err = sp.WritePacket(pk, false, 1<<30)
						default:
							err = sp.WriteExact(pk.Payload)
						}
						if err != nil {
							break
						}
					}
				})
			}()
			inProgress := false
			if mode == "pipe" {
				// far end: feed part of a packet so ReadPacket is mid-packet, drain writes
				go func() {
					buf := make([]byte, 32*1024)
					for {
						if _, err := far.Read(buf); err != nil {
							return
						}
					}
				}()
				cut := 0
				for i := 0; i <= trigger && i < len(cuts); i++ {
					cut += cuts[i]
				}
				if cut > len(img) {
					cut = len(img)
				}
				far.SetWriteDeadline(time.Now().Add(5 * time.Second))
				_, _ = far.Write(img[:cut]) // returns when the processor consumed it: the read op is now mid-packet
				inProgress = !rres.returned.Load() || !wres.returned.Load()
				race.release()
			} else {
				// closers are released by the scripted endpoints; make sure they are
				// released even if neither trigger is reached (e.g. write trigger beyond
				// the number of writes of a heartbeat-sized packet)
				go func() {
					dl := time.Now().Add(5 * time.Second)
					for !rs.fired.Load() && !ws.fired.Load() && time.Now().Before(dl) {
						if rres.returned.Load() && wres.returned.Load() {
							break
						}
						runtime.Gosched()
					}
					race.release()
				}()
			}
			markers := []string{"tunnox-core/internal/stream.(*StreamProcessor)"}
			ok, hung := c16WaitOrHang(race.done, snap, markers, false)
			ok = ok && race.timeout.Load() == 0
			if rs != nil && (rs.fired.Load() || ws.fired.Load()) {
				inProgress = true // the closers were released from inside the operation's own Read/Write
			}
			if inProgress {
				run.Count("op_in_progress_when_closed", 1)
			}
			// unblock whatever is still pending, then the operations must have returned
			if far != nil {
				far.Close()
			}
			if rs != nil {
				rs.Close()
				ws.Close()
			}
			if hung == nil && ok {
				opsDone := make(chan struct{})
				go func() { ops.Wait(); close(opsDone) }()
				ok, hung = c16WaitOrHang(opsDone, snap, markers, true)
			}
			if hung != nil && hung[0] == "TIMER" {
				// every Close has returned and the endpoints are closed, yet a writer of this
				// processor still sits on a timer of its own inside the write path
				run.Violation("C16:stream|writer-waiting-on-rate-limit-timer-after-close|op="+wop, map[string]any{"case": desc, "stacks": hung[1:]})
				run.Count("close_deadlocks", 1)
				cancel()
				snap = vk.SnapshotGoroutines()
				continue
			}
			if hung != nil {
				// Close (or an operation racing it) can never return. The goroutines of this
				// trial are abandoned; later trials diff against a fresh snapshot.
				run.Violation("C16:stream|close-deadlock", map[string]any{"case": desc, "parked_goroutines": len(hung), "stacks": hung})
				run.Count("close_deadlocks", 1)
				cancel()
				snap = vk.SnapshotGoroutines()
				continue
			}
			cancel()
			if !ok {
				run.Count("watchdog", 1)
				continue
			}
			if slowInterrupted.Load() {
				run.Count("rate_limited_write_ended_by_close", 1)
			}
			maxIn := int(race.maxIn.Load())
			run.Max("max_concurrent_closers", int64(maxIn))
			if maxIn >= 2 {
				run.Count("overlap_runs", 1)
			}
			if mode == "chunked" && waitClose && (rs.fired.Load() || ws.fired.Load()) {
				run.Count("close_between_chunks_runs", 1)
			}
			run.Distinct(fmt.Sprintf("%s|%s|%s|chunk=%d/%d|w=%d|K=%d|wait=%v|overlap=%v", mode, rop, wop, trigger, len(cuts), wtrigger, k, waitClose, maxIn >= 2))
			for _, res := range []*c16OpResult{rres, wres} {
				if p := res.panicked.Load(); p != nil {
					run.Violation("C16:stream|panic-during-close|op="+res.name, map[string]any{"case": desc, "panic": p})
				}
			}
			if got := handlerRuns.Load(); got != 1 {
				run.Violation(fmt.Sprintf("C16:stream|cleanup-handler-runs=%d", got), map[string]any{"case": desc})
			}
			if !sp.IsClosed() {
				run.Violation("C16:stream|not-closed-after-close", map[string]any{"case": desc})
			}
			// every public method after close, under recover
			for _, op := range []struct {
				name string
				f    func()
			}{
				{"ReadPacket", func() { _, _, _ = sp.ReadPacket() }},
				{"WritePacket", func() { _, _ = sp.WritePacket(c16Packet(3), false, 0) }},
				{"WritePacket(nil)", func() { _, _ = sp.WritePacket(nil, false, 0) }},
				{"ReadExact", func() { _, _ = sp.ReadExact(4) }},
				{"ReadAvailable", func() { _, _ = sp.ReadAvailable(4) }},
				{"ReadExactZeroCopy", func() { _, _ = sp.ReadExactZeroCopy(4) }},
				{"WriteExact", func() { _ = sp.WriteExact([]byte("abc")) }},
				{"GetReader", func() { sp.GetReader() }}, {"GetWriter", func() { sp.GetWriter() }},
				{"Close", func() { sp.Close() }}, {"CloseWithResult", func() { sp.CloseWithResult() }},
				{"IsClosed", func() { sp.IsClosed() }},
			} {
				res := &c16OpResult{name: op.name}
				c16Do(res, op.f)
				if p := res.panicked.Load(); p != nil {
					run.Violation("C16:stream|panic-after-close|op="+op.name, map[string]any{"case": desc, "panic": p})
				}
			}
			if got := handlerRuns.Load(); got != 1 {
				run.Violation(fmt.Sprintf("C16:stream|cleanup-handler-runs=%d", got), map[string]any{"case": desc, "when": "after-post-close-calls"})
			}
		}
		if l := snap.Leaked(scope, nil, 3*time.Second); len(l) > 0 {
			sum := vk.FrameSummary(l)
			run.Violation("C16:stream|goroutine-left|"+c16LeakFn(l[0]), map[string]any{"batch_start": done, "leaked": len(l), "frames": sum, "stack": l[0].Stack})
			run.Count("leak_violations", 1) // after 3 the test stops: every further trial would wait the full poll interval
		}
		run.Count("leak_checks", 1)
	}
}

// c16LeakFn names a leaked goroutine by its entry function (outermost tunnox-core
// frame): stable across the states/inner frames the goroutine happens to be in.
func c16LeakFn(g vk.Goroutine) string {
	fn := "?"
	for _, l := range strings.Split(g.Stack, "\n") {
		if strings.HasPrefix(l, "tunnox-core/") {
			fn = l
			if i := strings.LastIndex(fn, "("); i > 0 {
				fn = fn[:i]
			}
		}
	}
	return fn
}
