//go:build verif && verif_c16

package dispose

import (
	"context"
	"errors"
	"fmt"
	"math/rand"
	"runtime"
	"strings"
	"sync"
	"sync/atomic"
	"testing"
	"time"

	vk "tunnox-core/internal/verifkit"
)

// C16 (dispose part) — cleanup handlers of Dispose / ResourceBase / ManagerBase /
// ResourceManager run exactly once when K goroutines close the component at the same
// instant, concurrently with parent-context cancellation, with a handler being added,
// and with a parent handler that closes the same child.
//
// Generator: per trial one component with H counting handlers; K in {2,4,12} closers
// (mix of Close / CloseWithError / Dispose-through-manager) are released from a SPIN
// barrier (atomic flag, busy wait) after seeded per-goroutine pre-close spins.
// Oracle: every pre-registered handler ran exactly once after all closers returned and
// still exactly once after every public method was called again (under recover);
// a handler added concurrently with Close ran at most once; IsClosed()==true and the
// component context is cancelled.

// ---- spin barrier (same recipe in every C16 package) -------------------------------

type c16Race struct {
	ready   atomic.Int32
	flag    atomic.Uint32
	inside  atomic.Int32
	maxIn   atomic.Int32
	timeout atomic.Int32
}

var c16Sink atomic.Uint64

func c16Spin(n int) {
	for i := 0; i < n; i++ {
		c16Sink.Add(1)
	}
}

// c16RunRace starts one goroutine per fn, releases them together from a spin barrier,
// and reports the maximum number of goroutines that were inside their fn at once.
// ok=false: watchdog (barrier or completion) fired — the trial is inconclusive.
func c16RunRace(fns []func(), spins []int) (maxInside int, ok bool) {
	r := &c16Race{}
	var wg sync.WaitGroup
	k := len(fns)
	wg.Add(k)
	for i := 0; i < k; i++ {
		go func(i int) {
			defer wg.Done()
			r.ready.Add(1)
			n := 0
			for r.flag.Load() == 0 {
				n++
				if n > 1<<16 {
					runtime.Gosched()
				}
				if n > 1<<26 {
					r.timeout.Add(1)
					break
				}
			}
			c16Spin(spins[i])
			in := r.inside.Add(1)
			for {
				m := r.maxIn.Load()
				if in <= m || r.maxIn.CompareAndSwap(m, in) {
					break
				}
			}
			fns[i]()
			r.inside.Add(-1)
		}(i)
	}
	deadline := time.Now().Add(10 * time.Second)
	for int(r.ready.Load()) < k {
		runtime.Gosched()
		if time.Now().After(deadline) {
			r.timeout.Add(1)
			break
		}
	}
	r.flag.Store(1)
	done := make(chan struct{})
	go func() { wg.Wait(); close(done) }()
	select {
	case <-done:
	case <-time.After(20 * time.Second):
		return int(r.maxIn.Load()), false
	}
	return int(r.maxIn.Load()), r.timeout.Load() == 0
}

// ---- component under test -----------------------------------------------------------

type c16Disp struct {
	kind     string
	closeFns []func() // ways to close it (each racer picks one)
	isClosed func() bool
	ctx      func() context.Context
	add      func(func() error)
	post     []c16Op         // every public method, for the after-close pass
	counts   []*atomic.Int32 // one per pre-registered handler
	parent   context.CancelFunc
}

func c16Handler(c *atomic.Int32, fail bool) func() error {
	return func() error {
		c.Add(1)
		if fail {
			return errors.New("c16 handler error")
		}
		return nil
	}
}

func c16Build(kind string, h int, failIdx int) *c16Disp {
	pctx, cancel := context.WithCancel(context.Background())
	d := &c16Disp{kind: kind, parent: cancel}
	for i := 0; i < h; i++ {
		d.counts = append(d.counts, &atomic.Int32{})
	}
	switch kind {
	case "Dispose":
		x := NewDispose(pctx, c16Handler(d.counts[0], failIdx == 0))
		for i := 1; i < h; i++ {
			x.AddCleanHandler(c16Handler(d.counts[i], failIdx == i))
		}
		d.closeFns = []func(){func() { x.Close() }, func() { _ = x.CloseWithError() }}
		d.isClosed, d.ctx, d.add = x.IsClosed, x.Ctx, x.AddCleanHandler
		d.post = []c16Op{
			{"Close", func() { x.Close() }}, {"CloseWithError", func() { _ = x.CloseWithError() }},
			{"IsClosed", func() { x.IsClosed() }}, {"GetErrors", func() { x.GetErrors() }}, {"Ctx", func() { x.Ctx() }},
			{"SetCtx", func() { x.SetCtx(context.Background(), func() error { return nil }) }},
			{"SetCtxWithNoOpOnClose", func() { x.SetCtxWithNoOpOnClose(context.Background()) }},
		}
	case "ResourceBase":
		x := NewResourceBase("c16")
		x.Initialize(pctx)
		for i := 0; i < h; i++ {
			x.AddCleanHandler(c16Handler(d.counts[i], failIdx == i))
		}
		d.closeFns = []func(){func() { _ = x.Close() }, func() { x.Dispose.Close() }, func() { _ = x.CloseWithError() }}
		d.isClosed, d.ctx, d.add = x.IsClosed, x.Ctx, x.AddCleanHandler
		d.post = []c16Op{
			{"Close", func() { _ = x.Close() }}, {"Dispose.Close", func() { x.Dispose.Close() }},
			{"IsClosed", func() { x.IsClosed() }}, {"GetErrors", func() { x.GetErrors() }}, {"GetName", func() { x.GetName() }},
			{"SetName", func() { x.SetName("c16b") }}, {"Initialize", func() { x.Initialize(context.Background()) }},
		}
	case "ManagerBase", "ServiceBase":
		var rb *ResourceBase
		if kind == "ManagerBase" {
			rb = NewManager("c16m", pctx).ResourceBase
		} else {
			rb = NewService("c16s", pctx).ResourceBase
		}
		for i := 0; i < h; i++ {
			rb.AddCleanHandler(c16Handler(d.counts[i], failIdx == i))
		}
		d.closeFns = []func(){func() { _ = rb.Close() }, func() { rb.Dispose.Close() }}
		d.isClosed, d.ctx, d.add = rb.IsClosed, rb.Ctx, rb.AddCleanHandler
		d.post = []c16Op{
			{"Close", func() { _ = rb.Close() }}, {"IsClosed", func() { rb.IsClosed() }}, {"GetErrors", func() { rb.GetErrors() }},
			{"Ctx", func() { rb.Ctx() }}, {"CloseWithError", func() { _ = rb.CloseWithError() }},
		}
	}
	return d
}

type c16Op struct {
	name string
	f    func()
}

type c16Res struct{ n *atomic.Int32 }

func (r c16Res) Dispose() error { r.n.Add(1); return nil }

func TestVerifC16Dispose(t *testing.T) {
	vk.Quiet()
	run := vk.Start(t, "C16", "dispose")
	defer run.Finish()
	run.Rule("trial = (kind in Dispose/ResourceBase/ManagerBase/ServiceBase/ResourceManager/nested) x (path in plain/parent-cancel/add-handler/handler-error) x K in {2,4,12} closers released from a spin barrier with seeded pre-close spins; distinct = (kind,path,K,overlap observed)")
	r := run.Rand("trials")
	n := run.Pick(12000, 200000)
	kinds := []string{"Dispose", "ResourceBase", "ManagerBase", "ServiceBase", "ResourceManager", "nested"}
	paths := []string{"plain", "parent-cancel", "add-handler", "handler-error", "slow-handler"}
	ks := []int{2, 4, 12}
	for _, kd := range kinds {
		run.Floor("overlap_runs_"+kd, 100)
	}
	for _, f := range []string{"lower", "mixed-case", "padded", "unicode", "empty", "long"} {
		run.Floor("manager_held_family_"+f, 50)
	}
	run.Floor("slow_handler_trials_all_closers_waited_for_cleanup", 100)
	run.Floor("dispose_with_timeout_timed_out", 30)
	c16TimeoutPhase(run, r)
	for trial := 0; trial < n && run.Violations() < 20 && run.Counter("leak_violations") < 3; trial++ {
		kind := kinds[trial%len(kinds)]
		path := paths[r.Intn(len(paths))]
		k := ks[r.Intn(len(ks))]
		h := 1 + r.Intn(3)
		spins := make([]int, k+1)
		for i := range spins {
			if r.Intn(2) == 0 {
				spins[i] = r.Intn(200)
			}
		}
		desc := map[string]any{"kind": kind, "path": path, "K": k, "H": h, "spins": spins, "trial": trial}
		run.Eval(1)
		switch kind {
		case "ResourceManager":
			c16TrialManager(run, r.Int63(), k, h, spins, path, desc)
		case "nested":
			c16TrialNested(run, k, spins, path, desc)
		default:
			c16TrialPlain(run, kind, path, k, h, r.Intn(4), r.Intn(16), spins, desc)
		}
	}
}

func c16Overlap(run *vk.Run, kind, path string, k, maxIn int, ok bool) bool {
	if !ok {
		run.Count("watchdog", 1)
		return false
	}
	run.Max("max_concurrent_closers", int64(maxIn))
	if maxIn >= 2 {
		run.Count("overlap_runs_"+kind, 1)
	}
	run.Distinct(fmt.Sprintf("%s|%s|K=%d|overlap=%v", kind, path, k, maxIn >= 2))
	return true
}

func c16TrialPlain(run *vk.Run, kind, path string, k, h, failPick, pickBits int, spins []int, desc map[string]any) {
	failIdx := -1
	if path == "handler-error" {
		failIdx = failPick % h
	}
	d := c16Build(kind, h, failIdx)
	var late atomic.Int32
	fns := make([]func(), 0, k+1)
	for i := 0; i < k; i++ {
		fns = append(fns, d.closeFns[(pickBits+i)%len(d.closeFns)])
	}
	// slow-handler: one more cleanup handler that is held at a gate (a slow flush / remote
	// update). Whatever Close promises must hold for EVERY caller when its Close returns,
	// so no Close call may return while that handler is still running. The gate is opened
	// after the handler was entered and a seeded number of scheduler yields has passed (or
	// all other closers have already come back).
	var slowEntered, slowFinished atomic.Bool
	var slowReturned, slowEarly atomic.Int32
	var othersWaited atomic.Bool
	slowGate := make(chan struct{})
	releaserDone := make(chan struct{})
	if path == "slow-handler" {
		d.add(func() error { slowEntered.Store(true); <-slowGate; slowFinished.Store(true); return nil })
		for i := 0; i < k; i++ {
			f := fns[i]
			fns[i] = func() {
				f()
				if !slowFinished.Load() {
					slowEarly.Add(1)
				}
				slowReturned.Add(1)
			}
		}
		yields := 200 + pickBits*120
		go func() {
			defer close(releaserDone)
			dl := time.Now().Add(10 * time.Second)
			for !slowEntered.Load() && time.Now().Before(dl) {
				runtime.Gosched()
			}
			for y := 0; y < yields && int(slowReturned.Load()) < k-1; y++ {
				runtime.Gosched()
			}
			othersWaited.Store(slowReturned.Load() == 0)
			close(slowGate)
		}()
	} else {
		close(releaserDone)
	}
	switch path {
	case "parent-cancel":
		fns = append(fns, func() { d.parent() })
	case "add-handler":
		fns = append(fns, func() { d.add(c16Handler(&late, false)) })
	}
	maxIn, ok := c16RunRace(fns, spins)
	if !c16Overlap(run, kind, path, k, maxIn, ok) {
		return
	}
	<-releaserDone
	if path == "slow-handler" {
		run.Count("slow_handler_trials", 1)
		if othersWaited.Load() {
			run.Count("slow_handler_trials_all_closers_waited_for_cleanup", 1)
		}
		if e := slowEarly.Load(); e > 0 {
			run.Violation(fmt.Sprintf("C16:dispose|%s|close-returned-before-cleanup-finished", kind),
				map[string]any{"case": desc, "closers_that_returned_while_a_cleanup_handler_was_still_running": e})
		}
	}
	c16Judge(run, d, path, k, &late, desc, "after-close")
	// every public method once more, under recover; counts must not move
	for _, op := range d.post {
		name, f := op.name, op.f
		func() {
			defer func() {
				if e := recover(); e != nil {
					run.Violation(fmt.Sprintf("C16:dispose|%s|panic-after-close|op=%s", kind, name), map[string]any{"case": desc, "panic": fmt.Sprint(e)})
				}
			}()
			f()
		}()
	}
	run.Count("post_close_calls", int64(len(d.post)))
	c16Judge(run, d, path, k, &late, desc, "after-post-close-calls")
	d.parent()
}

func c16Judge(run *vk.Run, d *c16Disp, path string, k int, late *atomic.Int32, desc map[string]any, when string) {
	for i, c := range d.counts {
		if got := c.Load(); got != 1 {
			cls := "0"
			if got > 1 {
				cls = "2+"
			}
			run.Violation(fmt.Sprintf("C16:dispose|%s|handler-runs=%s", d.kind, cls),
				map[string]any{"case": desc, "handler": i, "runs": got, "when": when})
		}
	}
	if got := late.Load(); got > 1 {
		run.Violation(fmt.Sprintf("C16:dispose|%s|late-handler-runs=2+", d.kind), map[string]any{"case": desc, "runs": got, "when": when})
	} else if got == 1 {
		run.Count("late_handler_ran", 1)
	}
	if !d.isClosed() {
		run.Violation(fmt.Sprintf("C16:dispose|%s|not-closed-after-close", d.kind), map[string]any{"case": desc, "when": when})
	}
	if c := d.ctx(); c != nil && c.Err() == nil {
		run.Violation(fmt.Sprintf("C16:dispose|%s|ctx-alive-after-close", d.kind), map[string]any{"case": desc, "when": when})
	}
}

// ResourceManager: K concurrent DisposeAll (+ optional concurrent Register of a fresh
// resource); every resource registered before the race is disposed exactly once.
// c16Names: resource-name families. Names that are distinct strings are distinct
// resources for the harness; it never relies on that, though: what the manager holds is
// decided from the return values of Register / Unregister only.
var c16Names = []struct{ family, name string }{
	{"lower", "r0"}, {"lower", "storage"}, {"lower", "session-manager"},
	{"mixed-case", "Storage"}, {"mixed-case", "STORAGE"}, {"mixed-case", "SessionManager"}, {"mixed-case", "TunnelBridge-c16"},
	{"padded", " storage"}, {"padded", "storage "}, {"padded", "\tcache\n"}, {"padded", " Session Manager "},
	{"unicode", "存储"}, {"unicode", "Straße"}, {"unicode", "STRASSE"}, {"unicode", "İstanbul"}, {"unicode", "ＡＢＣ"},
	{"empty", ""}, {"empty", " "},
	{"long", strings.Repeat("LongResourceName/", 600)}, {"long", strings.Repeat("longresourcename/", 600)},
}

type c16MRes struct {
	family, name string
	runs         atomic.Int32
	held         bool // Register returned nil and no successful Unregister of this very name since
	everHeld     bool
}

func (r *c16MRes) Dispose() error { r.runs.Add(1); return nil }

// ResourceManager: a seeded history of Register / Unregister / re-Register over names from
// the families above, then K concurrent DisposeAll (+ optional concurrent Register of a
// fresh resource). Every resource the manager accepted and did not give back is disposed
// exactly once; refused and unregistered ones are never disposed.
func c16TrialManager(run *vk.Run, seed int64, k, h int, spins []int, path string, desc map[string]any) {
	r := rand.New(rand.NewSource(seed))
	rm := NewResourceManager()
	var all []*c16MRes
	byName := map[string]*c16MRes{} // currently held, by exact registration name
	var hist []string
	steps := h + r.Intn(2*h+2)
	for i := 0; i < steps; i++ {
		pick := c16Names[r.Intn(len(c16Names))]
		if cur, ok := byName[pick.name]; ok && r.Intn(2) == 0 {
			// give a held resource back, under exactly the name it was registered with
			err := rm.Unregister(pick.name)
			hist = append(hist, fmt.Sprintf("Unregister(%.24q)=%v", pick.name, err == nil))
			if err == nil {
				cur.held = false
				delete(byName, pick.name)
			} else {
				run.Count("unregister_of_held_name_refused", 1)
			}
			continue
		}
		res := &c16MRes{family: pick.family, name: pick.name}
		all = append(all, res)
		err := rm.Register(pick.name, res)
		hist = append(hist, fmt.Sprintf("Register(%.24q)=%v", pick.name, err == nil))
		if err == nil {
			if old, dup := byName[pick.name]; dup {
				// accepted although the very same string is held: the old one was replaced
				old.held = false
				run.Count("register_replaced_same_name", 1)
			}
			res.held, res.everHeld = true, true
			byName[pick.name] = res
		} else if _, dup := byName[pick.name]; !dup {
			run.Count("register_refused_for_new_string", 1)
		}
	}
	desc["history"] = hist
	heldCount := 0
	fams := map[string]bool{}
	for _, res := range all {
		if res.held {
			heldCount++
			fams[res.family] = true
		}
	}
	if heldCount > 0 {
		run.Count("manager_trials_with_held_resources", 1)
	}
	for f := range fams {
		run.Count("manager_held_family_"+f, 1)
	}
	late := &c16MRes{family: "late", name: "Late Resource"}
	fns := make([]func(), 0, k+1)
	for i := 0; i < k; i++ {
		if (seed>>uint(i))&1 == 0 {
			fns = append(fns, func() { rm.DisposeAll() })
		} else {
			fns = append(fns, func() { rm.DisposeWithTimeout(10 * time.Second) })
		}
	}
	if path == "add-handler" {
		fns = append(fns, func() { _ = rm.Register(late.name, late) })
	}
	maxIn, ok := c16RunRace(fns, spins)
	if !c16Overlap(run, "ResourceManager", path, k, maxIn, ok) {
		return
	}
	judge := func(when string) {
		for i, res := range all {
			got := res.runs.Load()
			want := int32(0)
			if res.held {
				want = 1
			}
			if got == want {
				continue
			}
			cls := "0"
			if got > 1 {
				cls = "2+"
			} else if got == 1 {
				cls = "1-but-not-held"
			}
			run.Violation("C16:dispose|ResourceManager|dispose-runs="+cls+"|name="+res.family,
				map[string]any{"case": desc, "resource": i, "name": fmt.Sprintf("%.40q", res.name), "ever_accepted": res.everHeld, "held_at_dispose": res.held, "runs": got, "when": when})
		}
		if late.runs.Load() > 1 {
			run.Violation("C16:dispose|ResourceManager|late-resource-runs=2+", map[string]any{"case": desc, "runs": late.runs.Load()})
		}
	}
	judge("after-disposeall")
	for _, op := range []c16Op{
		{"DisposeAll", func() { rm.DisposeAll() }}, {"ListResources", func() { rm.ListResources() }},
		{"GetResourceCount", func() { rm.GetResourceCount() }}, {"GetResource", func() { rm.GetResource("Storage") }},
		{"Unregister", func() { _ = rm.Unregister(" storage") }},
	} {
		name, f := op.name, op.f
		func() {
			defer func() {
				if e := recover(); e != nil {
					run.Violation("C16:dispose|ResourceManager|panic-after-close|op="+name, map[string]any{"case": desc, "panic": fmt.Sprint(e)})
				}
			}()
			f()
		}()
	}
	judge("after-post-close-calls")
}

// nested: a parent ManagerBase whose cleanup handler closes a child Dispose, while the
// same child is closed directly by other goroutines. Child handler exactly once.
func c16TrialNested(run *vk.Run, k int, spins []int, path string, desc map[string]any) {
	pctx, cancel := context.WithCancel(context.Background())
	defer cancel()
	var childRuns, parentRuns atomic.Int32
	parent := NewManager("c16p", pctx)
	child := NewDispose(parent.Ctx(), c16Handler(&childRuns, false))
	parent.AddCleanHandler(func() error {
		parentRuns.Add(1)
		child.Close()
		return nil
	})
	fns := make([]func(), 0, k+1)
	for i := 0; i < k; i++ {
		if i%2 == 0 {
			fns = append(fns, func() { _ = parent.Close() })
		} else {
			fns = append(fns, func() { child.Close() })
		}
	}
	if path == "parent-cancel" {
		fns = append(fns, cancel)
	}
	maxIn, ok := c16RunRace(fns, spins)
	if !c16Overlap(run, "nested", path, k, maxIn, ok) {
		return
	}
	if c, p := childRuns.Load(), parentRuns.Load(); c != 1 || p != 1 {
		run.Violation(fmt.Sprintf("C16:dispose|nested|child-runs=%d|parent-runs=%d", c, p), map[string]any{"case": desc})
	}
	if !child.IsClosed() || !parent.IsClosed() {
		run.Violation("C16:dispose|nested|not-closed-after-close", map[string]any{"case": desc})
	}
}

type c16GatedRes struct {
	gate chan struct{}
	runs atomic.Int32
}

func (g *c16GatedRes) Dispose() error { g.runs.Add(1); <-g.gate; return nil }

// c16TimeoutPhase: ResourceManager.DisposeWithTimeout with a resource whose Dispose takes
// longer than the (1-5 ms) timeout: the call reports the timeout; when the slow disposal
// is finally released, every resource was disposed exactly once and nothing of the manager
// is left running (goroutine diff).
func c16TimeoutPhase(run *vk.Run, r *rand.Rand) {
	const trials = 60
	snap := vk.SnapshotGoroutines()
	type rec struct {
		slow  *c16GatedRes
		fast  []*c16MRes
		desc  map[string]any
		timed bool
	}
	var recs []rec
	for i := 0; i < trials; i++ {
		rm := NewResourceManager()
		rc := rec{slow: &c16GatedRes{gate: make(chan struct{})}}
		nFast := r.Intn(3)
		pos := r.Intn(nFast + 1)
		for j := 0; j <= nFast; j++ {
			if j == pos {
				_ = rm.Register("Slow Resource", rc.slow)
				continue
			}
			f := &c16MRes{family: "lower", name: fmt.Sprintf("fast-%d", j)}
			rc.fast = append(rc.fast, f)
			_ = rm.Register(f.name, f)
		}
		timeout := time.Duration(1+r.Intn(5)) * time.Millisecond
		callers := 1 + r.Intn(3)
		rc.desc = map[string]any{"timeout_phase_trial": i, "timeout": timeout.String(), "fast_resources": nFast, "slow_position": pos, "concurrent_callers": callers}
		run.Eval(1)
		results := make(chan *DisposeResult, callers)
		for c := 0; c < callers; c++ {
			go func() { results <- rm.DisposeWithTimeout(timeout) }()
		}
		for c := 0; c < callers; c++ {
			select {
			case res := <-results:
				if res != nil && res.HasErrors() && res.Errors[0].ResourceName == "timeout" {
					rc.timed = true
				}
			case <-time.After(20 * time.Second):
				run.Count("watchdog", 1)
			}
		}
		if rc.timed {
			run.Count("dispose_with_timeout_timed_out", 1)
		}
		run.Distinct(fmt.Sprintf("timeout-phase|fast=%d|pos=%d|callers=%d|timed=%v", nFast, pos, callers, rc.timed))
		recs = append(recs, rc)
	}
	// the slow disposals finally finish
	for _, rc := range recs {
		close(rc.slow.gate)
	}
	if l := snap.Leaked([]string{"tunnox-core/internal/core/dispose"}, nil, 2*time.Second); len(l) > 0 {
		fn := "?"
		for _, line := range strings.Split(l[0].Stack, "\n") {
			if strings.HasPrefix(line, "tunnox-core/") && !strings.Contains(line, "c16") {
				fn = line
				if i := strings.LastIndex(fn, "("); i > 0 {
					fn = fn[:i]
				}
			}
		}
		run.Violation("C16:dispose|ResourceManager|goroutine-left-after-timed-out-dispose|"+fn, map[string]any{"leaked": len(l), "frames": vk.FrameSummary(l), "stack": l[0].Stack, "sample_case": recs[0].desc})
		run.Count("leak_violations", 1)
	}
	for _, rc := range recs {
		if got := rc.slow.runs.Load(); got != 1 {
			run.Violation(fmt.Sprintf("C16:dispose|ResourceManager|timed-out-dispose|slow-resource-runs=%d", got), map[string]any{"case": rc.desc})
		}
		for _, f := range rc.fast {
			if got := f.runs.Load(); got != 1 {
				run.Violation(fmt.Sprintf("C16:dispose|ResourceManager|timed-out-dispose|resource-runs=%d", got), map[string]any{"case": rc.desc, "resource": f.name})
			}
		}
	}
}
