//go:build verif && verif_c16

package json

import (
	"fmt"
	"os"
	"path/filepath"
	"runtime"
	"strings"
	"sync"
	"sync/atomic"
	"testing"
	"time"

	vk "tunnox-core/internal/verifkit"
)

// C16 (JSON file storage part — the persistent tier hybrid storage closes) — Close from K
// goroutines at once and again afterwards returns instead of panicking, the auto-save
// goroutine is gone afterwards, operations after Close do not panic.

var c16Sink atomic.Uint64

func TestVerifC16JSON(t *testing.T) {
	vk.Quiet()
	run := vk.Start(t, "C16", "json")
	defer run.Finish()
	run.Rule("trial = json.Storage (1 ms auto-save loop, dirty or clean) x K in {1,2,4,12} Close callers from a spin barrier, each under recover, then Close once more and 12 public methods under recover; distinct = (K, dirty, overlap)")
	r := run.Rand("trials")
	n := run.Pick(400, 4000)
	ks := []int{1, 2, 4, 12}
	run.Floor("overlap_runs", 100)
	run.Floor("closes_with_failing_final_save", 30)
	dir := t.TempDir()
	scope := []string{"tunnox-core/internal/core/storage/json"}
	for trial := 0; trial < n && run.Violations() < 20 && run.Counter("leak_violations") < 3; trial++ {
		k := ks[r.Intn(len(ks))]
		dirty := r.Intn(2) == 0
		autoSave := r.Intn(4) != 0
		interval := []time.Duration{time.Millisecond, time.Hour}[r.Intn(2)]
		// fault script: the data directory disappears before Close, so the close-time save fails
		unwritable := r.Intn(3) == 0
		spins := make([]int, k)
		for i := range spins {
			if r.Intn(2) == 0 {
				spins[i] = r.Intn(300)
			}
		}
		desc := map[string]any{"trial": trial, "K": k, "dirty": dirty, "spins": spins, "auto_save": autoSave, "save_interval": interval.String(), "data_dir_removed_before_close": unwritable}
		run.Eval(1)
		snap := vk.SnapshotGoroutines()
		sub := filepath.Join(dir, fmt.Sprintf("d%d", trial))
		s, err := New(&Config{FilePath: filepath.Join(sub, "data.json"), AutoSave: autoSave, SaveInterval: interval})
		if err != nil {
			t.Fatalf("c16: json.New: %v", err)
		}
		if dirty {
			_ = s.Set("k", "v")
		}
		if unwritable {
			if err := os.RemoveAll(sub); err != nil {
				t.Fatalf("c16: remove data dir: %v", err)
			}
			if dirty {
				_ = s.Set("k2", "v2") // unsaved data at close time, whatever the auto-saver did meanwhile
				run.Count("closes_with_failing_final_save", 1)
			}
		}
		var ready, inside, maxIn, panics atomic.Int32
		var flag atomic.Uint32
		var firstPanic atomic.Value
		var wg sync.WaitGroup
		wg.Add(k)
		for i := 0; i < k; i++ {
			go func(i int) {
				defer wg.Done()
				ready.Add(1)
				for c := 0; flag.Load() == 0 && c < 1<<26; c++ {
					if c > 1<<16 {
						runtime.Gosched()
					}
				}
				for c := 0; c < spins[i]; c++ {
					c16Sink.Add(1)
				}
				in := inside.Add(1)
				for {
					m := maxIn.Load()
					if in <= m || maxIn.CompareAndSwap(m, in) {
						break
					}
				}
				defer inside.Add(-1)
				defer func() {
					if e := recover(); e != nil {
						panics.Add(1)
						firstPanic.CompareAndSwap(nil, fmt.Sprint(e))
					}
				}()
				_ = s.Close()
			}(i)
		}
		dl := time.Now().Add(10 * time.Second)
		for int(ready.Load()) < k && time.Now().Before(dl) {
			runtime.Gosched()
		}
		flag.Store(1)
		done := make(chan struct{})
		go func() { wg.Wait(); close(done) }()
		select {
		case <-done:
		case <-time.After(20 * time.Second):
			run.Count("watchdog", 1)
			continue
		}
		if maxIn.Load() >= 2 {
			run.Count("overlap_runs", 1)
		}
		run.Distinct(fmt.Sprintf("K=%d|dirty=%v|auto=%v|%s|unwritable=%v|overlap=%v", k, dirty, autoSave, interval, unwritable, maxIn.Load() >= 2))
		if p := panics.Load(); p > 0 {
			run.Violation("C16:json|panic|op=Close|concurrent", map[string]any{"case": desc, "closers_that_panicked": p, "panic": firstPanic.Load()})
		}
		for _, op := range []struct {
			name string
			f    func()
		}{
			{"Close", func() { _ = s.Close() }},
			{"Set", func() { _ = s.Set("a", "b") }}, {"Get", func() { _, _ = s.Get("a") }},
			{"Delete", func() { _ = s.Delete("a") }}, {"Exists", func() { _, _ = s.Exists("a") }},
			{"BatchSet", func() { _ = s.BatchSet(map[string]interface{}{"x": 1}) }},
			{"BatchGet", func() { _, _ = s.BatchGet([]string{"x"}) }}, {"BatchDelete", func() { _ = s.BatchDelete([]string{"x"}) }},
			{"Flush", func() { _ = s.Flush() }}, {"GetStats", func() { s.GetStats() }},
			{"AppendToList", func() { _ = s.AppendToList("l", "v") }}, {"QueryByPrefix", func() { _, _ = s.QueryByPrefix("a", 1) }},
		} {
			name, f := op.name, op.f
			func() {
				defer func() {
					if e := recover(); e != nil {
						run.Violation("C16:json|panic-after-close|op="+name, map[string]any{"case": desc, "panic": fmt.Sprint(e)})
					}
				}()
				f()
			}()
		}
		if l := snap.Leaked(scope, nil, 2*time.Second); len(l) > 0 {
			sum := vk.FrameSummary(l)
			run.Violation("C16:json|goroutine-left|"+c16LeakFn(l[0]), map[string]any{"case": desc, "frames": sum, "stack": l[0].Stack})
			run.Count("leak_violations", 1) // after 3 the test stops: every further trial would wait the full poll interval
		}
	}
}

// c16LeakFn names a leaked goroutine by its entry function (outermost tunnox-core
// frame): stable across the states/inner frames the goroutine happens to be in.
func c16LeakFn(g vk.Goroutine) string {
	fn := "?"
	for _, l := range strings.Split(g.Stack, "\n") {
		if strings.HasPrefix(l, "tunnox-core/") {
			fn = l
			if i := strings.LastIndex(fn, "("); i > 0 {
				fn = fn[:i]
			}
		}
	}
	return fn
}
