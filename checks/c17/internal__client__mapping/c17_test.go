//go:build verif && verif_c17

package mapping

import (
	"context"
	"errors"
	"fmt"
	"io"
	"net"
	"runtime"
	"sync"
	"sync/atomic"
	"testing"
	"time"

	"tunnox-core/internal/client/tunnel"
	"tunnox-core/internal/cloud/models"
	"tunnox-core/internal/config"
	"tunnox-core/internal/stream"
	"tunnox-core/internal/verifhook"
	vk "tunnox-core/internal/verifkit"
)

// C17 (iii) — the per-mapping concurrent-connection limit on the listening client.
//
//   TestVerifC17MappingRace         N local connections arrive at once at occupancy L-1
//   TestVerifC17MappingEstablished  connections that completed set-up keep counting
//
// The real BaseMappingHandler.handleConnection runs against a fake MappingAdapter and
// ClientInterface. An admitted connection parks inside PrepareConnection (the first
// thing the handler does after admission), so "parked simultaneously" = "admitted
// simultaneously". The window between checkConnectionQuota() and activeConnCount.Add(1)
// contains no I/O; the build-tag-guarded hook point "mapping.quota.checked" sits exactly
// there and is used to hold racers until K of them have passed the check.

const c17Watchdog = 5 * time.Second

var errC17Released = errors.New("c17: released by harness")

func c17StoreMax(m *atomic.Int32, v int32) {
	for {
		o := m.Load()
		if v <= o || m.CompareAndSwap(o, v) {
			return
		}
	}
}

// ---- doubles ----

type c17Adapter struct {
	mode      atomic.Int32 // 0 = park in PrepareConnection, 1 = pass (establish)
	parked    atomic.Int32
	maxParked atomic.Int32
	release   atomic.Value // chan struct{}
	timedOut  atomic.Bool
	event     chan struct{}
}

func (a *c17Adapter) ping() {
	select {
	case a.event <- struct{}{}:
	default:
	}
}

func (a *c17Adapter) StartListener(config.MappingConfig) error { return nil }
func (a *c17Adapter) Accept() (io.ReadWriteCloser, error)      { return nil, errors.New("c17: no accept") }
func (a *c17Adapter) GetProtocol() string                      { return "tcp" }
func (a *c17Adapter) Close() error                             { return nil }
func (a *c17Adapter) PrepareConnection(conn io.ReadWriteCloser) error {
	if a.mode.Load() == 1 {
		return nil
	}
	rel, _ := a.release.Load().(chan struct{})
	c17StoreMax(&a.maxParked, a.parked.Add(1))
	a.ping()
	select {
	case <-rel:
	case <-time.After(3 * c17Watchdog):
		a.timedOut.Store(true)
	}
	a.parked.Add(-1)
	return errC17Released
}

type c17Client struct {
	ctx      context.Context
	quotaMax int
	mu       sync.Mutex
	remotes  []net.Conn // server-side ends of dialled tunnels
}

func (c *c17Client) DialTunnel(tunnelID, mappingID, secretKey string) (net.Conn, stream.PackageStreamer, error) {
	a, b := net.Pipe()
	c.mu.Lock()
	c.remotes = append(c.remotes, b)
	c.mu.Unlock()
	return a, stream.NewStreamProcessor(a, a, c.ctx), nil
}
func (c *c17Client) DialTunnelPooled(string, string) (PooledTunnelConnInterface, error) {
	return nil, nil
}
func (c *c17Client) ReturnTunnelToPool(PooledTunnelConnInterface)  {}
func (c *c17Client) CloseTunnelFromPool(PooledTunnelConnInterface) {}
func (c *c17Client) IsTunnelPoolEnabled() bool                     { return false }
func (c *c17Client) GetContext() context.Context                   { return c.ctx }
func (c *c17Client) CheckMappingQuota(string) error                { return nil }
func (c *c17Client) TrackTraffic(string, int64, int64) error       { return nil }
func (c *c17Client) GetUserQuota() (*models.UserQuota, error) {
	return &models.UserQuota{MaxConnections: c.quotaMax}, nil
}
func (c *c17Client) GetServerProtocol() string { return "tcp" }
func (c *c17Client) SendTunnelCloseNotify(int64, string, string, string) error {
	return nil
}

// c17Local is the local connection handed to handleConnection; it records Close.
type c17Local struct {
	net.Conn
	closed    atomic.Bool   // Close has completed: the connection is no longer open
	closing   atomic.Bool   // Close has been called
	closeGate chan struct{} // non-nil: Close takes until the gate opens (a slow transport close)
}

func (l *c17Local) Close() error {
	l.closing.Store(true)
	if l.closeGate != nil {
		select {
		case <-l.closeGate:
		case <-time.After(c17Watchdog):
		}
	}
	l.closed.Store(true)
	if l.Conn != nil {
		return l.Conn.Close()
	}
	return nil
}
func (l *c17Local) Read(p []byte) (int, error) {
	if l.Conn == nil {
		return 0, io.EOF
	}
	return l.Conn.Read(p)
}
func (l *c17Local) Write(p []byte) (int, error) {
	if l.Conn == nil {
		return len(p), nil
	}
	return l.Conn.Write(p)
}

// c17HookGate holds requests inside the check->record window until `need` of them are
// there, or every racer is accounted for (inside, or returned while the gate was still
// closed = refused at the check), or nothing has moved for c17Stall (the remaining
// racers are blocked on something the code under test holds, e.g. a lock around
// check+record: a scheduling decision, never a verdict). Every wait is capped.
type c17HookGate struct {
	n, need     int32
	arrived     atomic.Int32
	early       atomic.Int32
	atOpen      atomic.Int32
	progress    atomic.Int64 // unix nanos of the last arrival / early return
	open        chan struct{}
	once        sync.Once
	timedOut    atomic.Bool
	stallOpened atomic.Bool
}

const c17Stall = 4 * time.Millisecond

func c17NewHookGate(n, need int) *c17HookGate {
	if need > n {
		need = n
	}
	if need < 1 {
		need = 1
	}
	g := &c17HookGate{n: int32(n), need: int32(need), open: make(chan struct{})}
	g.progress.Store(time.Now().UnixNano())
	return g
}

func (g *c17HookGate) openNow() {
	g.once.Do(func() {
		g.atOpen.Store(g.arrived.Load())
		close(g.open)
	})
}

func (g *c17HookGate) maybeOpen() {
	a := g.arrived.Load()
	if a >= g.need || a+g.early.Load() >= g.n {
		g.openNow()
	}
}

func (g *c17HookGate) isOpen() bool {
	select {
	case <-g.open:
		return true
	default:
		return false
	}
}

func (g *c17HookGate) enter() {
	if g.isOpen() {
		return
	}
	g.arrived.Add(1)
	g.progress.Store(time.Now().UnixNano())
	g.maybeOpen()
	began := time.Now()
	for {
		select {
		case <-g.open:
			return
		case <-time.After(time.Millisecond):
			if time.Since(time.Unix(0, g.progress.Load())) > c17Stall {
				g.stallOpened.Store(true)
				g.openNow()
				return
			}
			if time.Since(began) > c17Watchdog {
				g.timedOut.Store(true)
				return
			}
		}
	}
}

// returned: while the gate is closed every racer that arrived is still held, so a
// return seen before the gate opens belongs to a racer refused at the check.
func (g *c17HookGate) returned() {
	if !g.isOpen() {
		g.early.Add(1)
		g.progress.Store(time.Now().UnixNano())
		g.maybeOpen()
	}
}

var c17CurGate atomic.Pointer[c17HookGate]

func c17InstallHook() {
	verifhook.Set(func(name string) {
		if name != "mapping.quota.checked" {
			return
		}
		if g := c17CurGate.Load(); g != nil {
			g.enter()
		}
	})
}

type c17Spin struct {
	ready atomic.Int32
	goNow atomic.Int32
}

func (b *c17Spin) wait() {
	b.ready.Add(1)
	for i := 0; i < 50_000_000 && b.goNow.Load() == 0; i++ {
		if i&15 == 15 {
			runtime.Gosched()
		}
	}
}

func (b *c17Spin) release(n int) bool {
	dl := time.Now().Add(c17Watchdog)
	for b.ready.Load() < int32(n) {
		if time.Now().After(dl) {
			b.goNow.Store(1)
			return false
		}
		runtime.Gosched()
	}
	b.goNow.Store(1)
	return true
}

// ---- world ----

type c17MapWorld struct {
	dialled   int           // tunnels dialled so far that are attributed to a connection
	closeGate chan struct{} // given to the local connections opened from now on
	h         *BaseMappingHandler
	ad        *c17Adapter
	cl        *c17Client
	cancel    context.CancelFunc
}

// source: "config" = MappingConfig.MaxConnections, "quota" = user quota (config 0)
func c17NewMapWorld(limit int, source string) *c17MapWorld {
	ctx, cancel := context.WithCancel(context.Background())
	cl := &c17Client{ctx: ctx}
	cfg := config.MappingConfig{MappingID: "c17-map", SecretKey: "k", Protocol: "tcp", LocalPort: 18080, TargetHost: "127.0.0.1", TargetPort: 80}
	if source == "config" {
		cfg.MaxConnections = limit
	} else {
		cl.quotaMax = limit
	}
	ad := &c17Adapter{event: make(chan struct{}, 1)}
	h := NewBaseMappingHandler(cl, cfg, ad)
	return &c17MapWorld{h: h, ad: ad, cl: cl, cancel: cancel}
}

func (w *c17MapWorld) close() {
	w.h.Close()
	w.cancel()
	w.cl.mu.Lock()
	for _, r := range w.cl.remotes {
		r.Close()
	}
	w.cl.mu.Unlock()
}

type c17MapCase struct {
	Limit   int    `json:"limit"`
	Source  string `json:"limit_source"`
	Prefill int    `json:"prefill"`
	N       int    `json:"n"`
	Need    int    `json:"hold_until_passed_check"`
	Mode    string `json:"mode"` // hold | free
}

type c17MapOutcome struct {
	Case         c17MapCase `json:"case"`
	Parked       int        `json:"admitted_simultaneously"`
	Refused      int        `json:"refused"`
	InWindow     int        `json:"racers_between_check_and_add"`
	CounterAfter int32      `json:"activeConnCount_after_release"`
}

// waitResolved waits until parked+returned == total (every connection is either
// admitted and parked, or has been turned away).
func (w *c17MapWorld) waitResolved(total int, returned *atomic.Int32) bool {
	dl := time.Now().Add(2 * c17Watchdog)
	for {
		if int(w.ad.parked.Load())+int(returned.Load()) >= total {
			return true
		}
		if time.Now().After(dl) {
			return false
		}
		select {
		case <-w.ad.event:
		case <-time.After(200 * time.Microsecond):
		}
	}
}

func c17MapTrial(run *vk.Run, w *c17MapWorld, cs c17MapCase) {
	rel := make(chan struct{})
	w.ad.release.Store(rel)
	w.ad.timedOut.Store(false)
	w.ad.mode.Store(0)
	var returned atomic.Int32
	var wg sync.WaitGroup
	locals := make([]*c17Local, 0, cs.Prefill+cs.N)
	start := func(l *c17Local, pre func(), post func()) {
		wg.Add(1)
		go func() {
			defer wg.Done()
			if pre != nil {
				pre()
			}
			w.h.handleConnection(l)
			if post != nil {
				post()
			}
			returned.Add(1)
			w.ad.ping()
		}()
	}
	finish := func() {
		c17CurGate.Store(nil)
		close(rel)
		wg.Wait()
	}
	// prefill: sequential admissions, hook inactive
	c17CurGate.Store(nil)
	for i := 0; i < cs.Prefill; i++ {
		l := &c17Local{}
		locals = append(locals, l)
		start(l, nil, nil)
		if !w.waitResolved(i+1, &returned) {
			finish()
			run.Count("watchdog", 1)
			return
		}
	}
	if int(w.ad.parked.Load()) != cs.Prefill {
		finish()
		run.Count("mapping_prefill_refused", 1)
		return
	}
	run.Case("mapping-race", cs)
	gate := c17NewHookGate(cs.N, cs.Need)
	if cs.Mode == "hold" {
		c17CurGate.Store(gate)
	}
	var spin c17Spin
	for i := 0; i < cs.N; i++ {
		l := &c17Local{}
		locals = append(locals, l)
		start(l, spin.wait, gate.returned)
	}
	okBarrier := spin.release(cs.N)
	resolved := w.waitResolved(cs.Prefill+cs.N, &returned)
	parked := int(w.ad.parked.Load())
	refused := int(returned.Load())
	inWin := int(gate.atOpen.Load())
	finish()
	if !okBarrier || !resolved || gate.timedOut.Load() || w.ad.timedOut.Load() {
		run.Count("watchdog", 1)
		return
	}
	if gate.stallOpened.Load() {
		run.Count("gate_opened_by_stall", 1)
	}
	out := c17MapOutcome{Case: cs, Parked: parked, Refused: refused, InWindow: inWin, CounterAfter: w.h.activeConnCount.Load()}
	run.Eval(1)
	if inWin >= 2 {
		run.Count("mapping_trials_2plus_in_window", 1)
	}
	run.Max("mapping_in_window_max", int64(inWin))
	if cs.Limit > 0 {
		run.Max("mapping_max_over_limit", int64(parked-cs.Limit))
	}
	if refused > 0 {
		run.Count("mapping_refusals_checked", int64(refused))
	}
	if out.CounterAfter != 0 {
		// quiescence: every handleConnection call of this trial has returned and nothing was
		// established, so no slot may be held (a refused or failed connection gave it back)
		run.Count("mapping_counter_nonzero_after_trial", 1)
		run.Violation("C17:mapping-conn-limit|refused-changed-state|active-counter", out)
	}
	run.Distinct(fmt.Sprintf("mapping|%s|%s|L%d|P%d|N%d|K%d|adm%d|win%d", cs.Mode, cs.Source, cs.Limit, cs.Prefill, cs.N, cs.Need, parked, inWin))
	run.Sample(out)
	if cs.Limit > 0 && parked > cs.Limit {
		run.Violation("C17:mapping-conn-limit|exceeded", out)
	}
	if cs.Limit == 0 && refused > 0 {
		run.Violation("C17:mapping-conn-limit|unlimited-refused", out)
	}
	// a refused connection is closed and never counted: parked + refused == all, and
	// every refused local connection was closed by the handler
	notClosed := 0
	for _, l := range locals {
		if !l.closed.Load() {
			notClosed++
		}
	}
	if notClosed > 0 {
		run.Violation("C17:mapping-conn-limit|refused-left-state|conn-open", map[string]any{"outcome": out, "local_conns_not_closed": notClosed})
	}
}

func TestVerifC17MappingRace(t *testing.T) {
	vk.Quiet()
	run := vk.Start(t, "C17", "mapping-race")
	defer run.Finish()
	run.Rule("BaseMappingHandler.handleConnection with max connections L in {0,1,2,5} taken from the mapping config or from the user quota: L-1 (or L-2) connections parked inside PrepareConnection, then N in {2,8,32} " +
		"connections handled concurrently; mode hold: the hook point between checkConnectionQuota and activeConnCount.Add holds racers until K in {2..N} have passed the check; mode free: spin barrier only. " +
		"The handler is reused across trials of one configuration (a counter that drifts shows up as a later excess). distinct = (mode, source, L, prefill, N, K, admitted, racers in the window)")
	run.Floor("mapping_trials_2plus_in_window", 100)
	run.Floor("mapping_refusals_checked", 50)
	c17InstallHook()
	defer verifhook.Set(nil)
	reps := run.Pick(200, 4000)
	r := run.Rand("mapping")
	for _, L := range []int{0, 1, 2, 5} {
		for _, N := range []int{2, 8, 32} {
			for _, src := range []string{"config", "quota"} {
				w := c17NewMapWorld(L, src)
				for rep := 0; rep < reps/2 && run.Violations() < 20; rep++ {
					cs := c17MapCase{Limit: L, Source: src, N: N, Mode: "hold", Prefill: L - 1}
					if L >= 2 && rep%4 == 3 {
						cs.Prefill = L - 2
					}
					if cs.Prefill < 0 {
						cs.Prefill = 0
					}
					switch rep % 3 {
					case 0:
						cs.Need = N
					case 1:
						cs.Need = 2
					default:
						cs.Need = 2 + r.Intn(N-1)
					}
					if N <= 8 && rep%10 == 9 {
						cs.Mode, cs.Need = "free", 0
					}
					c17MapTrial(run, w, cs)
				}
				w.close()
			}
		}
	}
}

// ---------------------------------------------------------------------------
// established connections keep occupying the limit
// ---------------------------------------------------------------------------

type c17EstOutcome struct {
	Limit      int    `json:"limit"`
	Source     string `json:"limit_source"`
	Opened     int    `json:"connections_opened_sequentially"`
	Relaying   int    `json:"connections_relaying_simultaneously"`
	StillOpen  int    `json:"local_conns_not_closed_by_handler"`
	Counter    int32  `json:"activeConnCount"`
	TunnelsReg int    `json:"tunnels_registered"`
}

func TestVerifC17MappingEstablished(t *testing.T) {
	vk.Quiet()
	run := vk.Start(t, "C17", "mapping-established")
	defer run.Finish()
	run.Rule("no concurrency at all: with max connections L in {1,2,5} (config or quota), L+E local connections (E in {1,3}) are handled one after another, each completes set-up (DialTunnel succeeds over net.Pipe) and stays open; " +
		"a connection counts as simultaneously open only if a fresh token written on its local side comes out of its tunnel while all the others are open too. distinct = (source, L, E, relaying)")
	run.Floor("established_relaying_conns", 20)
	verifhook.Set(nil)
	reps := run.Pick(3, 40)
	for _, L := range []int{1, 2, 5} {
		for _, src := range []string{"config", "quota"} {
			for _, E := range []int{1, 3} {
				for rep := 0; rep < reps && run.Violations() < 20; rep++ {
					c17EstablishedTrial(run, L, src, E)
				}
			}
		}
	}
}

func c17EstablishedTrial(run *vk.Run, L int, src string, E int) {
	w := c17NewMapWorld(L, src)
	defer w.close()
	w.ad.mode.Store(1)
	run.Case("mapping-established", map[string]any{"limit": L, "source": src, "extra": E})
	type pair struct {
		app   net.Conn
		local *c17Local
	}
	var conns []pair
	for i := 0; i < L+E; i++ {
		app, hs := net.Pipe()
		l := &c17Local{Conn: hs}
		conns = append(conns, pair{app, l})
		done := make(chan struct{})
		go func() { w.h.handleConnection(l); close(done) }()
		select {
		case <-done:
		case <-time.After(c17Watchdog):
			run.Count("watchdog", 1)
			for _, p := range conns {
				p.app.Close()
			}
			return
		}
		// generateTunnelID is time based: keep ids distinct
		time.Sleep(50 * time.Microsecond)
	}
	defer func() {
		for _, p := range conns {
			p.app.Close()
		}
	}()
	// which connections are open *now*, all at the same time: send a token through each
	w.cl.mu.Lock()
	remotes := append([]net.Conn(nil), w.cl.remotes...)
	w.cl.mu.Unlock()
	stillOpen := 0
	for _, p := range conns {
		if !p.local.closed.Load() {
			stillOpen++
		}
	}
	relaying := 0
	var wg sync.WaitGroup
	var rel atomic.Int32
	// remotes[i] belongs to the i-th admitted connection (sequential dialling)
	open := 0
	for _, p := range conns {
		if p.local.closed.Load() {
			continue
		}
		if open >= len(remotes) {
			break
		}
		rc := remotes[open]
		open++
		token := []byte(fmt.Sprintf("c17-token-%02d", open))
		wg.Add(2)
		go func(app net.Conn) {
			defer wg.Done()
			app.SetWriteDeadline(time.Now().Add(c17Watchdog))
			app.Write(token)
		}(p.app)
		go func(rc net.Conn) {
			defer wg.Done()
			buf := make([]byte, len(token))
			rc.SetReadDeadline(time.Now().Add(c17Watchdog))
			if _, err := io.ReadFull(rc, buf); err == nil && string(buf) == string(token) {
				rel.Add(1)
			}
		}(rc)
	}
	wg.Wait()
	relaying = int(rel.Load())
	// after the tokens went through, every one of them must still be open
	stillOpen = 0
	for _, p := range conns {
		if !p.local.closed.Load() {
			stillOpen++
		}
	}
	if stillOpen < relaying {
		relaying = stillOpen
	}
	out := c17EstOutcome{Limit: L, Source: src, Opened: L + E, Relaying: relaying, StillOpen: stillOpen,
		Counter: w.h.activeConnCount.Load(), TunnelsReg: len(remotes)}
	run.Eval(1)
	run.Count("established_relaying_conns", int64(relaying))
	run.Distinct(fmt.Sprintf("established|%s|L%d|E%d|relaying%d", src, L, E, relaying))
	run.Sample(out)
	if relaying > L {
		run.Violation("C17:mapping-conn-limit|established|exceeded", out)
	}
}

// ---------------------------------------------------------------------------
// histories: refusals at the limit must not consume capacity
// ---------------------------------------------------------------------------

type c17HistOutcome struct {
	Limit        int    `json:"limit"`
	Source       string `json:"limit_source"`
	Refusals     int    `json:"k_refused_at_limit"`
	Ended        int    `json:"j_active_ended"`
	StillActive  int    `json:"still_active"`
	Readmitted   int    `json:"admitted_after_ending"`
	Expected     int    `json:"expected_admitted"`
	CounterAtCap int32  `json:"activeConnCount_after_refusals"`
	CounterEnd   int32  `json:"activeConnCount_at_end"`
	LiveEnd      int    `json:"live_admitted_connections_at_end"`
	Step         string `json:"failed_step,omitempty"`
}

type c17HistConn struct {
	app    net.Conn
	local  *c17Local
	remote net.Conn // far end of the tunnel dialled for this connection (nil if refused)
}

// end finishes an established connection the way it ends in production: the application
// hangs up and the far end of the tunnel closes too (the copy loop is half-close aware and
// runs until both directions are done).
func (c *c17HistConn) end() {
	c.app.Close()
	if c.remote != nil {
		c.remote.Close()
	}
}

// open hands one local connection to the real handler and waits for handleConnection to
// return; admitted = the handler did not close it (it is established and relaying).
func (w *c17MapWorld) open() (*c17HistConn, bool, bool) {
	app, hs := net.Pipe()
	l := &c17Local{Conn: hs, closeGate: w.closeGate}
	done := make(chan struct{})
	go func() { w.h.handleConnection(l); close(done) }()
	select {
	case <-done:
	case <-time.After(c17Watchdog):
		app.Close()
		return nil, false, false
	}
	time.Sleep(50 * time.Microsecond) // generateTunnelID is time based: keep ids distinct
	c := &c17HistConn{app: app, local: l}
	w.cl.mu.Lock()
	if n := len(w.cl.remotes); n > w.dialled {
		c.remote = w.cl.remotes[n-1]
		w.dialled = n
	}
	w.cl.mu.Unlock()
	return c, !l.closed.Load(), true
}

// settle waits (bounded) until the handler's counter equals want; the tunnel releases its
// slot synchronously in Close right after closing the local side, so this takes microseconds.
func (w *c17MapWorld) settle(want int32) bool {
	dl := time.Now().Add(3 * time.Second)
	for time.Now().Before(dl) {
		if w.h.activeConnCount.Load() == want {
			return true
		}
		time.Sleep(200 * time.Microsecond)
	}
	return false
}

// c17HistoryTrial: fill to the limit, have k more connections refused, end j of the active
// ones, then open connections until one is refused. Oracle ("a refused request changes
// nothing" + the limit): at every quiescent point the handler's counter equals the number
// of live admitted connections, and exactly j connections are admitted again.
func c17HistoryTrial(run *vk.Run, L int, src string, k, j int) {
	w := c17NewMapWorld(L, src)
	defer w.close()
	w.ad.mode.Store(1)
	out := c17HistOutcome{Limit: L, Source: src, Refusals: k, Ended: j, Expected: j}
	run.Case("mapping-history", out)
	var live []*c17HistConn
	var all []*c17HistConn
	defer func() {
		for _, c := range all {
			c.app.Close()
		}
	}()
	fail := func(sig, step string) {
		out.Step = step
		out.CounterEnd = w.h.activeConnCount.Load()
		run.Violation(sig, out)
	}
	for i := 0; i < L; i++ {
		c, adm, ok := w.open()
		if !ok {
			run.Count("watchdog", 1)
			return
		}
		all = append(all, c)
		if !adm {
			run.Count("history_fill_refused_below_limit", 1)
			return
		}
		live = append(live, c)
	}
	for i := 0; i < k; i++ {
		c, adm, ok := w.open()
		if !ok {
			run.Count("watchdog", 1)
			return
		}
		all = append(all, c)
		if adm {
			fail("C17:mapping-conn-limit|exceeded|history", "connection admitted at the limit")
			return
		}
		run.Count("history_refusals_at_limit", 1)
	}
	// quiescent: L established, k refused
	out.CounterAtCap = w.h.activeConnCount.Load()
	if int(out.CounterAtCap) != len(live) {
		fail("C17:mapping-conn-limit|refused-changed-state|active-counter", "after k refusals at the limit: counter != live admitted connections")
		return
	}
	// end j active connections (the application side hangs up)
	for i := 0; i < j; i++ {
		live[i].end()
	}
	live = live[j:]
	out.StillActive = len(live)
	if !w.settle(int32(len(live))) {
		fail("C17:mapping-conn-limit|refused-changed-state|active-counter", "after j active connections ended: counter did not return to the number of live connections")
		return
	}
	// new connections: exactly limit - still-active are admitted, the next one is refused
	for i := 0; i < j+1; i++ {
		c, adm, ok := w.open()
		if !ok {
			run.Count("watchdog", 1)
			return
		}
		all = append(all, c)
		if !adm {
			break
		}
		out.Readmitted++
		live = append(live, c)
	}
	out.LiveEnd = len(live)
	out.CounterEnd = w.h.activeConnCount.Load()
	run.Eval(1)
	run.Count("history_readmissions", int64(out.Readmitted))
	run.Distinct(fmt.Sprintf("history|%s|L%d|k%d|j%d|readm%d", src, L, k, j, out.Readmitted))
	run.Sample(out)
	switch {
	case out.Readmitted > j:
		fail("C17:mapping-conn-limit|exceeded|history", "more connections admitted than limit - still-active")
	case out.Readmitted < j:
		fail("C17:mapping-conn-limit|refused-changed-state|capacity-lost", "fewer connections admitted than limit - still-active after refusals")
	case int(out.CounterEnd) != out.LiveEnd:
		fail("C17:mapping-conn-limit|refused-changed-state|active-counter", "at the end: counter != live admitted connections")
	}
}

// c17SlowCloseTrial: the mapping is at its limit with established connections whose
// transport close is slow (held on a gate). The peer closes one tunnel (TunnelManager.
// CloseTunnel, what a TunnelClosed notification does); while that connection's Close is
// still in progress, i.e. the connection is still open, new connections arrive. Oracle:
// at no moment are more than max_connections local connections of the mapping open
// (handed to the handler and Close not completed).
func c17SlowCloseTrial(run *vk.Run, L int, src string) {
	w := c17NewMapWorld(L, src)
	defer w.close()
	w.ad.mode.Store(1)
	gate := make(chan struct{})
	var once sync.Once
	openGate := func() { once.Do(func() { close(gate) }) }
	defer openGate()
	w.closeGate = gate
	cs := map[string]any{"limit": L, "limit_source": src}
	run.Case("mapping-slow-close", cs)
	var all []*c17HistConn
	defer func() {
		openGate()
		for _, c := range all {
			c.end()
		}
	}()
	for i := 0; i < L; i++ {
		c, adm, ok := w.open()
		if !ok {
			run.Count("watchdog", 1)
			return
		}
		all = append(all, c)
		if !adm {
			run.Count("history_fill_refused_below_limit", 1)
			return
		}
	}
	tuns := w.h.GetTunnelManager().ListTunnels()
	if len(tuns) == 0 {
		run.Count("slowclose_no_tunnel", 1)
		return
	}
	closeDone := make(chan struct{})
	go func() {
		_ = w.h.GetTunnelManager().CloseTunnel(tuns[0].GetID(), tunnel.CloseReasonPeerClosed)
		close(closeDone)
	}()
	// wait until some established connection's Close is in progress (held on the gate)
	closingOne := func() *c17HistConn {
		for _, c := range all {
			if c.local.closing.Load() && !c.local.closed.Load() {
				return c
			}
		}
		return nil
	}
	dl := time.Now().Add(c17Watchdog)
	for closingOne() == nil {
		if time.Now().After(dl) {
			run.Count("watchdog", 1)
			return
		}
		time.Sleep(200 * time.Microsecond)
	}
	run.Count("slowclose_trials_close_in_progress", 1)
	// new connections arrive while that close is still in progress
	w.closeGate = nil
	openNow := func() int {
		n := 0
		for _, c := range all {
			if !c.local.closed.Load() {
				n++
			}
		}
		return n
	}
	maxOpen, admittedDuring := openNow(), 0
	for i := 0; i < 5; i++ {
		c, adm, ok := w.open()
		if !ok {
			run.Count("watchdog", 1)
			return
		}
		all = append(all, c)
		if adm {
			admittedDuring++
		} else {
			run.Count("slowclose_refused_while_close_in_progress", 1)
		}
		if n := openNow(); n > maxOpen {
			maxOpen = n
		}
		if adm {
			break
		}
		time.Sleep(time.Millisecond)
	}
	stillClosing := closingOne() != nil
	openGate()
	select {
	case <-closeDone:
	case <-time.After(c17Watchdog):
		run.Count("watchdog", 1)
		return
	}
	run.Eval(1)
	run.Distinct(fmt.Sprintf("slowclose|%s|L%d|open%d|adm%d", src, L, maxOpen, admittedDuring))
	cs["max_open_local_connections"] = maxOpen
	cs["admitted_while_close_in_progress"] = admittedDuring
	cs["old_connection_still_open_at_that_moment"] = stillClosing
	if maxOpen > L {
		run.Violation("C17:mapping-conn-limit|exceeded|slot-released-before-connection-closed", cs)
	}
}

func TestVerifC17MappingHistory(t *testing.T) {
	vk.Quiet()
	run := vk.Start(t, "C17", "mapping-history")
	defer run.Finish()
	run.Rule("sequential histories on the real handler with established tunnels (DialTunnel over net.Pipe): limit L in {1,2,3} from the mapping config or the user quota; fill to L, k in {1,2,4} further connections (refused), " +
		"j in {1..L} active connections end (application hangs up), then connections are opened until one is refused. slow-close: at the limit, the peer closes one tunnel while the local connection's transport Close is held on a gate, new connections arrive meanwhile: open local connections (Close not completed) <= L. In-package audit of activeConnCount against the live admitted connections at each quiescent point. distinct = (source, L, k, j, re-admitted)")
	run.Floor("history_refusals_at_limit", 30)
	run.Floor("history_readmissions", 30)
	run.Floor("slowclose_trials_close_in_progress", 6)
	run.Floor("slowclose_refused_while_close_in_progress", 6)
	verifhook.Set(nil)
	reps := run.Pick(1, 10)
	for rep := 0; rep < reps; rep++ {
		for _, L := range []int{1, 2, 3} {
			for _, src := range []string{"config", "quota"} {
				for _, k := range []int{1, 2, 4} {
					for j := 1; j <= L && run.Violations() < 20; j++ {
						c17HistoryTrial(run, L, src, k, j)
					}
				}
				for i := 0; i < 2 && run.Violations() < 20; i++ {
					c17SlowCloseTrial(run, L, src)
				}
			}
		}
	}
}
