//go:build verif && verif_c17

package client

import (
	"bufio"
	"context"
	"fmt"
	"net"
	"strings"
	"sync"
	"sync/atomic"
	"testing"
	"time"

	vk "tunnox-core/internal/verifkit"
)

// C17 (iii-c) — the per-mapping concurrent-connection limit that is CURRENTLY configured.
//
//   TestVerifC17MappingLimitUpdate
//
// The real TunnoxClient receives config pushes through its real config-update path
// (handleConfigUpdate, what the ConfigSet command handler calls) and runs real TCP
// mapping handlers on loopback. A running mapping then receives a push that differs from
// the running configuration ONLY in max_connections (lowered or raised), and local
// connections are opened one after another. Every local connection resolves, logically,
// in exactly one of two ways: the client dials a tunnel to the (black-hole) server for it
// = admitted, it keeps its slot while the tunnel handshake is unanswered; or the handler
// closes it = refused. Oracle: the number of connections admitted at the same time never
// exceeds the max_connections of the LAST push. (Fewer admissions than a raised limit
// allows is no violation of the statement; it is recorded only.)

const c17Watchdog = 5 * time.Second

type c17BlackHole struct {
	l       net.Listener
	accepts chan net.Conn
	mu      sync.Mutex
	held    []net.Conn
}

func c17NewBlackHole() (*c17BlackHole, error) {
	l, err := net.Listen("tcp4", "127.0.0.1:0")
	if err != nil {
		return nil, err
	}
	b := &c17BlackHole{l: l, accepts: make(chan net.Conn, 64)}
	go func() {
		for {
			c, err := l.Accept()
			if err != nil {
				return
			}
			b.mu.Lock()
			b.held = append(b.held, c)
			b.mu.Unlock()
			b.accepts <- c
		}
	}()
	return b, nil
}

func (b *c17BlackHole) close() {
	b.l.Close()
	b.mu.Lock()
	for _, c := range b.held {
		c.Close()
	}
	b.mu.Unlock()
}

func c17FreePort() (int, error) {
	l, err := net.Listen("tcp4", "127.0.0.1:0")
	if err != nil {
		return 0, err
	}
	p := l.Addr().(*net.TCPAddr).Port
	l.Close()
	return p, nil
}

type c17UpdateCase struct {
	Pushes   []int  `json:"max_connections_pushed_in_order"`
	Variant  string `json:"variant"`
	Attempts int    `json:"connections_opened"`
}

type c17UpdateOutcome struct {
	Case       c17UpdateCase `json:"case"`
	Configured int           `json:"configured_limit_last_push"`
	Admitted   int           `json:"admitted_simultaneously"`
	Refused    int           `json:"refused"`
	Sequence   []string      `json:"per_connection"`
}

func c17UpdateTrial(run *vk.Run, cs c17UpdateCase) {
	srv, err := c17NewBlackHole()
	if err != nil {
		run.Count("update_env_unavailable", 1)
		return
	}
	defer srv.close()
	port, err := c17FreePort()
	if err != nil {
		run.Count("update_env_unavailable", 1)
		return
	}
	ctx, cancel := context.WithCancel(context.Background())
	defer cancel()
	cfg := &ClientConfig{ClientID: 12345678, SecretKey: "sk"}
	cfg.Server.Address = srv.l.Addr().String()
	cfg.Server.Protocol = "tcp"
	c := NewClient(ctx, cfg)
	push := func(maxConns int, compression bool) {
		c.handleConfigUpdate(fmt.Sprintf(
			`{"mappings":[{"mapping_id":"pm-c17-update","secret_key":"k","protocol":"tcp","local_port":%d,`+
				`"target_host":"127.0.0.1","target_port":9,"target_client_id":87654321,`+
				`"bandwidth_limit":0,"max_connections":%d,"enable_compression":%v}]}`, port, maxConns, compression))
	}
	var locals []net.Conn
	defer func() {
		for _, l := range locals {
			l.Close()
		}
		c.handleConfigUpdate(`{"mappings":[]}`) // stops every running mapping handler
	}()
	run.Case("mapping-limit-update", cs)
	for i, m := range cs.Pushes {
		// variant "only-limit": successive pushes differ in max_connections only;
		// variant "limit+other": another field changes too (control: rebuild is triggered anyway)
		comp := true
		if cs.Variant == "limit+other" {
			comp = i%2 == 0
		}
		push(m, comp)
	}
	configured := cs.Pushes[len(cs.Pushes)-1]
	out := c17UpdateOutcome{Case: cs, Configured: configured}
	addr := fmt.Sprintf("127.0.0.1:%d", port)
	for i := 0; i < cs.Attempts; i++ {
		conn, err := net.DialTimeout("tcp4", addr, c17Watchdog)
		if err != nil {
			run.Count("update_local_dial_failed", 1)
			return
		}
		locals = append(locals, conn)
		closed := make(chan struct{})
		go func() {
			buf := make([]byte, 1)
			for {
				if _, err := conn.Read(buf); err != nil {
					close(closed)
					return
				}
			}
		}()
		select {
		case <-srv.accepts:
			out.Admitted++
			out.Sequence = append(out.Sequence, "admitted")
		case <-closed:
			out.Refused++
			out.Sequence = append(out.Sequence, "refused")
		case <-time.After(c17Watchdog):
			run.Count("watchdog", 1)
			return
		}
	}
	run.Eval(1)
	run.Count("update_connections_resolved", int64(out.Admitted+out.Refused))
	if len(cs.Pushes) > 1 && cs.Variant == "only-limit" {
		run.Count("update_trials_only_limit_changed", 1)
	}
	if out.Refused > 0 {
		run.Count("update_refusals_seen", int64(out.Refused))
	}
	run.Distinct(fmt.Sprintf("update|%v|%s|adm%d|ref%d", cs.Pushes, cs.Variant, out.Admitted, out.Refused))
	run.Sample(out)
	if configured > 0 && out.Admitted > configured {
		run.Violation("C17:mapping-conn-limit|exceeded|after-limit-update", out)
	}
	if configured > 0 && out.Admitted < configured && cs.Attempts >= configured {
		// the statement bounds admissions from above only
		run.Count("update_admitted_fewer_than_configured_limit", 1)
	}
}

func TestVerifC17MappingLimitUpdate(t *testing.T) {
	vk.Quiet()
	run := vk.Start(t, "C17", "mapping-limit-update")
	defer run.Finish()
	run.Rule("real TunnoxClient + real TCP mapping handler on loopback, black-hole server: config pushes through handleConfigUpdate; sequences of max_connections values (fresh: [L]; lowered: [3,1],[2,1],[5,2],[3,2,1]; raised: [1,3],[1,2]; lowered then raised [3,1,2]), " +
		"successive pushes differing ONLY in max_connections, or (control) in another field as well; then max(pushed)+1 local connections one after another, each resolved as admitted (client dials a tunnel) or refused (handler closes it). distinct = (pushes, variant, admitted, refused)")
	run.Floor("update_trials_only_limit_changed", 6)
	run.Floor("update_refusals_seen", 8)
	run.Floor("update_connections_resolved", 40)
	seqs := [][]int{{1}, {2}, {3}, {3, 1}, {2, 1}, {5, 2}, {3, 2, 1}, {1, 3}, {1, 2}, {3, 1, 2}}
	reps := run.Pick(1, 5)
	for rep := 0; rep < reps; rep++ {
		for _, sq := range seqs {
			for _, variant := range []string{"only-limit", "limit+other"} {
				if len(sq) == 1 && variant != "only-limit" {
					continue
				}
				mx := 0
				for _, v := range sq {
					if v > mx {
						mx = v
					}
				}
				if run.Violations() < 20 {
					c17UpdateTrial(run, c17UpdateCase{Pushes: sq, Variant: variant, Attempts: mx + 1})
				}
			}
		}
	}
}

// ---------------------------------------------------------------------------
// limit inherited from the user quota, quota cache cold, burst during the quota fetch
// ---------------------------------------------------------------------------

// c17QuotaServer is the server address of the client: connections that start with an HTTP
// request line are the Management API (GET .../quota is answered with max_connections=U,
// but only once the gate is open); everything else is a tunnel dial and is held unanswered.
type c17QuotaServer struct {
	l            net.Listener
	userMax      int
	gate         chan struct{}
	gateOnce     sync.Once
	quotaPending atomic.Int32 // quota requests received and not yet answered
	quotaSeen    atomic.Int32
	tunnelDials  atomic.Int32
	progress     atomic.Int64
	event        chan struct{}
	mu           sync.Mutex
	held         []net.Conn
}

func c17NewQuotaServer(userMax int) (*c17QuotaServer, error) {
	l, err := net.Listen("tcp4", "127.0.0.1:0")
	if err != nil {
		return nil, err
	}
	q := &c17QuotaServer{l: l, userMax: userMax, gate: make(chan struct{}), event: make(chan struct{}, 1)}
	q.progress.Store(time.Now().UnixNano())
	go func() {
		for {
			c, err := l.Accept()
			if err != nil {
				return
			}
			q.mu.Lock()
			q.held = append(q.held, c)
			q.mu.Unlock()
			go q.serve(c)
		}
	}()
	return q, nil
}

func (q *c17QuotaServer) ping() {
	q.progress.Store(time.Now().UnixNano())
	select {
	case q.event <- struct{}{}:
	default:
	}
}

func (q *c17QuotaServer) openGate() { q.gateOnce.Do(func() { close(q.gate) }) }

func (q *c17QuotaServer) serve(c net.Conn) {
	br := bufio.NewReader(c)
	first, err := br.Peek(4)
	if err != nil {
		return
	}
	if string(first) != "GET " && string(first) != "POST" {
		q.tunnelDials.Add(1) // a tunnel dial: this local connection was admitted; never answered
		q.ping()
		return
	}
	line, _ := br.ReadString('\n')
	for { // rest of the header
		h, err := br.ReadString('\n')
		if err != nil || h == "\r\n" || h == "\n" {
			break
		}
	}
	body := `{"success":false}`
	if strings.Contains(line, "/quota") {
		q.quotaSeen.Add(1)
		q.quotaPending.Add(1)
		q.ping()
		select {
		case <-q.gate:
		case <-time.After(3 * c17Watchdog):
		}
		q.quotaPending.Add(-1)
		body = fmt.Sprintf(`{"success":true,"data":{"max_client_ids":10,"max_connections":%d}}`, q.userMax)
	}
	fmt.Fprintf(c, "HTTP/1.1 200 OK\r\nContent-Type: application/json\r\nContent-Length: %d\r\nConnection: close\r\n\r\n%s", len(body), body)
	c.Close()
}

func (q *c17QuotaServer) close() {
	q.openGate()
	q.l.Close()
	q.mu.Lock()
	for _, c := range q.held {
		c.Close()
	}
	q.mu.Unlock()
}

type c17InheritOutcome struct {
	UserMax       int  `json:"user_quota_max_connections"`
	Burst         int  `json:"burst"`
	WarmCache     bool `json:"quota_cache_warm"`
	QuotaInFlight int  `json:"quota_requests_in_flight_when_burst_resolved"`
	DialsBefore   int  `json:"admitted_before_the_quota_answer"`
	Admitted      int  `json:"admitted_simultaneously"`
	Refused       int  `json:"refused"`
	OpenedByStall bool `json:"gate_opened_by_stall"`
}

func c17InheritTrial(run *vk.Run, userMax, burst int, warm bool) {
	srv, err := c17NewQuotaServer(userMax)
	if err != nil {
		run.Count("update_env_unavailable", 1)
		return
	}
	defer srv.close()
	port, err := c17FreePort()
	if err != nil {
		run.Count("update_env_unavailable", 1)
		return
	}
	ctx, cancel := context.WithCancel(context.Background())
	defer cancel()
	cfg := &ClientConfig{ClientID: 12345678, SecretKey: "sk"}
	cfg.Server.Address = srv.l.Addr().String()
	cfg.Server.Protocol = "tcp"
	c := NewClient(ctx, cfg)
	out := c17InheritOutcome{UserMax: userMax, Burst: burst, WarmCache: warm}
	run.Case("mapping-inherited-quota", out)
	if warm {
		srv.openGate()
		if _, err := c.GetUserQuota(); err != nil {
			run.Count("update_env_unavailable", 1)
			return
		}
	}
	c.handleConfigUpdate(fmt.Sprintf(
		`{"mappings":[{"mapping_id":"pm-c17-inherit","secret_key":"k","protocol":"tcp","local_port":%d,`+
			`"target_host":"127.0.0.1","target_port":9,"target_client_id":87654321,`+
			`"bandwidth_limit":0,"max_connections":0,"enable_compression":true}]}`, port))
	var locals []net.Conn
	defer func() {
		for _, l := range locals {
			l.Close()
		}
		c.handleConfigUpdate(`{"mappings":[]}`)
	}()
	var refused atomic.Int32
	addr := fmt.Sprintf("127.0.0.1:%d", port)
	for i := 0; i < burst; i++ {
		conn, err := net.DialTimeout("tcp4", addr, c17Watchdog)
		if err != nil {
			run.Count("update_local_dial_failed", 1)
			return
		}
		locals = append(locals, conn)
		go func() {
			buf := make([]byte, 1)
			for {
				if _, err := conn.Read(buf); err != nil {
					refused.Add(1)
					srv.ping()
					return
				}
			}
		}()
	}
	// phase 1: every connection of the burst is accounted for: waiting for the quota answer,
	// admitted (tunnel dialled) or refused; or nothing moves (callers queue behind one fetch)
	began := time.Now()
	for {
		n := int(srv.quotaPending.Load()) + int(srv.tunnelDials.Load()) + int(refused.Load())
		if n >= burst {
			break
		}
		if time.Since(time.Unix(0, srv.progress.Load())) > 100*time.Millisecond {
			out.OpenedByStall = true
			break
		}
		if time.Since(began) > c17Watchdog {
			run.Count("watchdog", 1)
			return
		}
		select {
		case <-srv.event:
		case <-time.After(2 * time.Millisecond):
		}
	}
	out.QuotaInFlight = int(srv.quotaPending.Load())
	out.DialsBefore = int(srv.tunnelDials.Load())
	srv.openGate()
	// phase 2: every connection resolves as admitted or refused
	began = time.Now()
	for int(srv.tunnelDials.Load())+int(refused.Load()) < burst {
		if time.Since(began) > c17Watchdog {
			run.Count("watchdog", 1)
			return
		}
		select {
		case <-srv.event:
		case <-time.After(2 * time.Millisecond):
		}
	}
	out.Admitted, out.Refused = int(srv.tunnelDials.Load()), int(refused.Load())
	run.Eval(1)
	if !warm && out.QuotaInFlight >= 1 {
		run.Count("inherit_trials_burst_resolved_during_cold_quota_fetch", 1)
	}
	if out.QuotaInFlight >= 2 {
		run.Count("inherit_trials_2plus_quota_fetches_in_flight", 1)
	}
	if out.Refused > 0 {
		run.Count("inherit_refusals_seen", int64(out.Refused))
	}
	run.Distinct(fmt.Sprintf("inherit|U%d|N%d|warm%v|inflight%d|adm%d", userMax, burst, warm, out.QuotaInFlight, out.Admitted))
	run.Sample(out)
	if out.Admitted > userMax {
		run.Violation("C17:mapping-conn-limit|exceeded|inherited-user-quota", out)
	}
}

func TestVerifC17MappingInheritedQuota(t *testing.T) {
	vk.Quiet()
	run := vk.Start(t, "C17", "mapping-inherited-quota")
	defer run.Finish()
	run.Rule("real TunnoxClient + real TCP mapping handler with max_connections=0 (limit inherited from the user quota U in {1,2,3} served by a Management API double on the client's server address); quota cache cold (or warm: control); " +
		"a burst of U+3 local connections arrives while the API double withholds the quota answer; the answer is released once every connection is waiting for it, admitted or refused (or nothing moves for 100 ms). " +
		"Admitted = a tunnel dial reaches the server (held unanswered), refused = closed by the handler. distinct = (U, burst, warm, quota fetches in flight, admitted)")
	run.Floor("inherit_trials_burst_resolved_during_cold_quota_fetch", 4)
	run.Floor("inherit_refusals_seen", 10)
	reps := run.Pick(2, 10)
	for rep := 0; rep < reps; rep++ {
		for _, U := range []int{1, 2, 3} {
			if run.Violations() < 20 {
				c17InheritTrial(run, U, U+3, false)
			}
		}
	}
	for _, U := range []int{1, 2} {
		c17InheritTrial(run, U, U+3, true)
	}
}
