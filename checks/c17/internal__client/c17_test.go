//go:build verif && verif_c17

package client

import (
	"context"
	"fmt"
	"net"
	"sync"
	"testing"
	"time"

	vk "tunnox-core/internal/verifkit"
)

// C17 (iii-c) — the per-mapping concurrent-connection limit that is CURRENTLY configured.
//
//   TestVerifC17MappingLimitUpdate
//
// The real TunnoxClient receives config pushes through its real config-update path
// (handleConfigUpdate, what the ConfigSet command handler calls) and runs real TCP
// mapping handlers on loopback. A running mapping then receives a push that differs from
// the running configuration ONLY in max_connections (lowered or raised), and local
// connections are opened one after another. Every local connection resolves, logically,
// in exactly one of two ways: the client dials a tunnel to the (black-hole) server for it
// = admitted, it keeps its slot while the tunnel handshake is unanswered; or the handler
// closes it = refused. Oracle: the number of connections admitted at the same time never
// exceeds the max_connections of the LAST push. (Fewer admissions than a raised limit
// allows is no violation of the statement; it is recorded only.)

const c17Watchdog = 5 * time.Second

type c17BlackHole struct {
	l       net.Listener
	accepts chan net.Conn
	mu      sync.Mutex
	held    []net.Conn
}

func c17NewBlackHole() (*c17BlackHole, error) {
	l, err := net.Listen("tcp4", "127.0.0.1:0")
	if err != nil {
		return nil, err
	}
	b := &c17BlackHole{l: l, accepts: make(chan net.Conn, 64)}
	go func() {
		for {
			c, err := l.Accept()
			if err != nil {
				return
			}
			b.mu.Lock()
			b.held = append(b.held, c)
			b.mu.Unlock()
			b.accepts <- c
		}
	}()
	return b, nil
}

func (b *c17BlackHole) close() {
	b.l.Close()
	b.mu.Lock()
	for _, c := range b.held {
		c.Close()
	}
	b.mu.Unlock()
}

func c17FreePort() (int, error) {
	l, err := net.Listen("tcp4", "127.0.0.1:0")
	if err != nil {
		return 0, err
	}
	p := l.Addr().(*net.TCPAddr).Port
	l.Close()
	return p, nil
}

type c17UpdateCase struct {
	Pushes   []int  `json:"max_connections_pushed_in_order"`
	Variant  string `json:"variant"`
	Attempts int    `json:"connections_opened"`
}

type c17UpdateOutcome struct {
	Case       c17UpdateCase `json:"case"`
	Configured int           `json:"configured_limit_last_push"`
	Admitted   int           `json:"admitted_simultaneously"`
	Refused    int           `json:"refused"`
	Sequence   []string      `json:"per_connection"`
}

func c17UpdateTrial(run *vk.Run, cs c17UpdateCase) {
	srv, err := c17NewBlackHole()
	if err != nil {
		run.Count("update_env_unavailable", 1)
		return
	}
	defer srv.close()
	port, err := c17FreePort()
	if err != nil {
		run.Count("update_env_unavailable", 1)
		return
	}
	ctx, cancel := context.WithCancel(context.Background())
	defer cancel()
	cfg := &ClientConfig{ClientID: 12345678, SecretKey: "sk"}
	cfg.Server.Address = srv.l.Addr().String()
	cfg.Server.Protocol = "tcp"
	c := NewClient(ctx, cfg)
	push := func(maxConns int, compression bool) {
		c.handleConfigUpdate(fmt.Sprintf(
			`{"mappings":[{"mapping_id":"pm-c17-update","secret_key":"k","protocol":"tcp","local_port":%d,`+
				`"target_host":"127.0.0.1","target_port":9,"target_client_id":87654321,`+
				`"bandwidth_limit":0,"max_connections":%d,"enable_compression":%v}]}`, port, maxConns, compression))
	}
	var locals []net.Conn
	defer func() {
		for _, l := range locals {
			l.Close()
		}
		c.handleConfigUpdate(`{"mappings":[]}`) // stops every running mapping handler
	}()
	run.Case("mapping-limit-update", cs)
	for i, m := range cs.Pushes {
		// variant "only-limit": successive pushes differ in max_connections only;
		// variant "limit+other": another field changes too (control: rebuild is triggered anyway)
		comp := true
		if cs.Variant == "limit+other" {
			comp = i%2 == 0
		}
		push(m, comp)
	}
	configured := cs.Pushes[len(cs.Pushes)-1]
	out := c17UpdateOutcome{Case: cs, Configured: configured}
	addr := fmt.Sprintf("127.0.0.1:%d", port)
	for i := 0; i < cs.Attempts; i++ {
		conn, err := net.DialTimeout("tcp4", addr, c17Watchdog)
		if err != nil {
			run.Count("update_local_dial_failed", 1)
			return
		}
		locals = append(locals, conn)
		closed := make(chan struct{})
		go func() {
			buf := make([]byte, 1)
			for {
				if _, err := conn.Read(buf); err != nil {
					close(closed)
					return
				}
			}
		}()
		select {
		case <-srv.accepts:
			out.Admitted++
			out.Sequence = append(out.Sequence, "admitted")
		case <-closed:
			out.Refused++
			out.Sequence = append(out.Sequence, "refused")
		case <-time.After(c17Watchdog):
			run.Count("watchdog", 1)
			return
		}
	}
	run.Eval(1)
	run.Count("update_connections_resolved", int64(out.Admitted+out.Refused))
	if len(cs.Pushes) > 1 && cs.Variant == "only-limit" {
		run.Count("update_trials_only_limit_changed", 1)
	}
	if out.Refused > 0 {
		run.Count("update_refusals_seen", int64(out.Refused))
	}
	run.Distinct(fmt.Sprintf("update|%v|%s|adm%d|ref%d", cs.Pushes, cs.Variant, out.Admitted, out.Refused))
	run.Sample(out)
	if configured > 0 && out.Admitted > configured {
		run.Violation("C17:mapping-conn-limit|exceeded|after-limit-update", out)
	}
	if configured > 0 && out.Admitted < configured && cs.Attempts >= configured {
		// the statement bounds admissions from above only
		run.Count("update_admitted_fewer_than_configured_limit", 1)
	}
}

func TestVerifC17MappingLimitUpdate(t *testing.T) {
	vk.Quiet()
	run := vk.Start(t, "C17", "mapping-limit-update")
	defer run.Finish()
	run.Rule("real TunnoxClient + real TCP mapping handler on loopback, black-hole server: config pushes through handleConfigUpdate; sequences of max_connections values (fresh: [L]; lowered: [3,1],[2,1],[5,2],[3,2,1]; raised: [1,3],[1,2]; lowered then raised [3,1,2]), " +
		"successive pushes differing ONLY in max_connections, or (control) in another field as well; then max(pushed)+1 local connections one after another, each resolved as admitted (client dials a tunnel) or refused (handler closes it). distinct = (pushes, variant, admitted, refused)")
	run.Floor("update_trials_only_limit_changed", 6)
	run.Floor("update_refusals_seen", 8)
	run.Floor("update_connections_resolved", 40)
	seqs := [][]int{{1}, {2}, {3}, {3, 1}, {2, 1}, {5, 2}, {3, 2, 1}, {1, 3}, {1, 2}, {3, 1, 2}}
	reps := run.Pick(1, 5)
	for rep := 0; rep < reps; rep++ {
		for _, sq := range seqs {
			for _, variant := range []string{"only-limit", "limit+other"} {
				if len(sq) == 1 && variant != "only-limit" {
					continue
				}
				mx := 0
				for _, v := range sq {
					if v > mx {
						mx = v
					}
				}
				if run.Violations() < 20 {
					c17UpdateTrial(run, c17UpdateCase{Pushes: sq, Variant: variant, Attempts: mx + 1})
				}
			}
		}
	}
}
