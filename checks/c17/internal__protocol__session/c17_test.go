//go:build verif && verif_c17

package session

import (
	"context"
	"fmt"
	"io"
	"reflect"
	"runtime"
	"sort"
	"strings"
	"sync"
	"sync/atomic"
	"testing"
	"time"

	"tunnox-core/internal/core/idgen"
	corelog "tunnox-core/internal/core/log"
	"tunnox-core/internal/core/storage/memory"
	"tunnox-core/internal/stream"
	vk "tunnox-core/internal/verifkit"
)

// C17 — configured limits and quotas hold under concurrency (server side, package session).
//
// Three monitors live here:
//   TestVerifC17MaxConn     SessionManager.CreateConnection vs SessionConfig.MaxConnections
//   TestVerifC17ControlCap  ClientRegistry.Register vs MaxControlConnections (evict-oldest)
//   TestVerifC17TunnelCap   TunnelRegistry.Register vs MaxTunnels (refuse)
//
// Common shape of a trial: fill to `prefill`, release N admissions at once, then read
// the real maps. Oracle: the number of simultaneously admitted entries never exceeds
// the limit (limit 0 = unlimited => nobody is refused), and a refused request leaves
// every map exactly as it was.

const c17Watchdog = 5 * time.Second

var (
	c17Limits = []int{0, 1, 2, 5}
	c17Ns     = []int{2, 8, 32}
)

// ---------------------------------------------------------------------------
// doubles
// ---------------------------------------------------------------------------

// c17Reader is the transport-side reader of a connection that carries its own
// connection id (as the websocket/QUIC server connections do). CreateConnection asks
// it for the id *after* the capacity check and *before* the insert, which makes the
// call a natural, unmodified gate inside the check->record window.
type c17Reader struct {
	id      string
	gate    func()
	arrived atomic.Bool
}

func (r *c17Reader) Read(p []byte) (int, error) { return 0, io.EOF }
func (r *c17Reader) GetConnectionID() string {
	if r.gate != nil && r.arrived.CompareAndSwap(false, true) {
		r.gate()
	}
	return r.id
}

// c17PlainReader has no id of its own: CreateConnection generates one (UUID path).
type c17PlainReader struct{}

func (c17PlainReader) Read(p []byte) (int, error) { return 0, io.EOF }

type c17Writer struct{}

func (c17Writer) Write(p []byte) (int, error) { return len(p), nil }

// c17HookGate holds requests inside the check->record window until `need` of them are
// there, or every racer is accounted for (inside, or returned while the gate was still
// closed = refused at the check), or nothing has moved for c17Stall (the remaining
// racers are blocked on something the code under test holds, e.g. a lock around
// check+record: a scheduling decision, never a verdict). Every wait is capped.
type c17HookGate struct {
	n, need     int32
	arrived     atomic.Int32
	early       atomic.Int32
	atOpen      atomic.Int32
	progress    atomic.Int64 // unix nanos of the last arrival / early return
	open        chan struct{}
	once        sync.Once
	timedOut    atomic.Bool
	stallOpened atomic.Bool
}

const c17Stall = 4 * time.Millisecond

func c17NewHookGate(n, need int) *c17HookGate {
	if need > n {
		need = n
	}
	if need < 1 {
		need = 1
	}
	g := &c17HookGate{n: int32(n), need: int32(need), open: make(chan struct{})}
	g.progress.Store(time.Now().UnixNano())
	return g
}

func (g *c17HookGate) openNow() {
	g.once.Do(func() {
		g.atOpen.Store(g.arrived.Load())
		close(g.open)
	})
}

func (g *c17HookGate) maybeOpen() {
	a := g.arrived.Load()
	if a >= g.need || a+g.early.Load() >= g.n {
		g.openNow()
	}
}

func (g *c17HookGate) isOpen() bool {
	select {
	case <-g.open:
		return true
	default:
		return false
	}
}

func (g *c17HookGate) enter() {
	if g.isOpen() {
		return
	}
	g.arrived.Add(1)
	g.progress.Store(time.Now().UnixNano())
	g.maybeOpen()
	began := time.Now()
	for {
		select {
		case <-g.open:
			return
		case <-time.After(time.Millisecond):
			if time.Since(time.Unix(0, g.progress.Load())) > c17Stall {
				g.stallOpened.Store(true)
				g.openNow()
				return
			}
			if time.Since(began) > c17Watchdog {
				g.timedOut.Store(true)
				return
			}
		}
	}
}

// returned: while the gate is closed every racer that arrived is still held, so a
// return seen before the gate opens belongs to a racer refused at the check.
func (g *c17HookGate) returned() {
	if !g.isOpen() {
		g.early.Add(1)
		g.progress.Store(time.Now().UnixNano())
		g.maybeOpen()
	}
}

func c17StoreMax(m *atomic.Int32, v int32) {
	for {
		o := m.Load()
		if v <= o || m.CompareAndSwap(o, v) {
			return
		}
	}
}

// c17Spin is a spin barrier (a channel barrier wakes goroutines one after another and
// rarely produces real overlap for windows of a few instructions).
type c17Spin struct {
	ready atomic.Int32
	goNow atomic.Int32
}

func (b *c17Spin) wait() {
	b.ready.Add(1)
	for i := 0; i < 50_000_000 && b.goNow.Load() == 0; i++ {
		if i&15 == 15 {
			runtime.Gosched()
		}
	}
}

func (b *c17Spin) release(n int) bool {
	dl := time.Now().Add(c17Watchdog)
	for b.ready.Load() < int32(n) {
		if time.Now().After(dl) {
			b.goNow.Store(1)
			return false
		}
		runtime.Gosched()
	}
	b.goNow.Store(1)
	return true
}

func c17SortedKeys[V any](m map[string]V) []string {
	out := make([]string, 0, len(m))
	for k := range m {
		out = append(out, k)
	}
	sort.Strings(out)
	return out
}

func c17Diff(got, want []string) (extra, missing []string) {
	w := map[string]bool{}
	for _, k := range want {
		w[k] = true
	}
	g := map[string]bool{}
	for _, k := range got {
		g[k] = true
		if !w[k] {
			extra = append(extra, k)
		}
	}
	for _, k := range want {
		if !g[k] {
			missing = append(missing, k)
		}
	}
	return
}

// ---------------------------------------------------------------------------
// (i) SessionManager.CreateConnection vs MaxConnections
// ---------------------------------------------------------------------------

type c17SMWorld struct {
	sm     *SessionManager
	gated  *vk.Gated
	cancel context.CancelFunc
}

func c17NewSMWorld(limit int) *c17SMWorld {
	ctx, cancel := context.WithCancel(context.Background())
	g := vk.NewGated("mem", memory.New(ctx))
	idm := idgen.NewIDManager(g, ctx)
	cfg := &SessionConfig{HeartbeatTimeout: time.Hour, CleanupInterval: time.Hour, MaxConnections: limit}
	return &c17SMWorld{sm: NewSessionManagerWithConfig(idm, ctx, cfg), gated: g, cancel: cancel}
}

func (w *c17SMWorld) close() {
	w.sm.Close()
	w.cancel()
}

func (w *c17SMWorld) connKeys() []string {
	w.sm.connLock.RLock()
	defer w.sm.connLock.RUnlock()
	return c17SortedKeys(w.sm.connMap)
}

func (w *c17SMWorld) streamKeys() []string {
	k := w.sm.streamMgr.ListStreams()
	sort.Strings(k)
	return k
}

type c17ConnCase struct {
	Limit   int    `json:"limit"`
	Prefill int    `json:"prefill"`
	N       int    `json:"n"`
	Need    int    `json:"hold_until_inside"`
	Mode    string `json:"mode"` // hold | free | explore
}

type c17ConnOutcome struct {
	Case        c17ConnCase `json:"case"`
	Admitted    int         `json:"admitted_by_racers"`
	Refused     int         `json:"refused_racers"`
	ConnMapSize int         `json:"connmap_size_after"`
	StreamCount int         `json:"stream_count_after"`
	InWindowMax int         `json:"racers_inside_window_max"`
	Schedule    []string    `json:"schedule,omitempty"`
}

// c17JudgeConn applies the oracle to the final state of one trial.
func c17JudgeConn(run *vk.Run, w *c17SMWorld, cs c17ConnCase, prefillIDs []string, admitted []string, refused int, inWindow int, sched []string) {
	keys := w.connKeys()
	streams := w.streamKeys()
	out := c17ConnOutcome{Case: cs, Admitted: len(admitted), Refused: refused, ConnMapSize: len(keys),
		StreamCount: len(streams), InWindowMax: inWindow, Schedule: sched}
	run.Eval(1)
	if inWindow >= 2 {
		run.Count("maxconn_trials_2plus_in_window", 1)
	}
	run.Max("maxconn_in_window_max", int64(inWindow))
	if cs.Limit > 0 {
		run.Max("maxconn_max_over_limit", int64(len(keys)-cs.Limit))
	}
	run.Distinct(fmt.Sprintf("maxconn|%s|L%d|P%d|N%d|K%d|adm%d|win%d", cs.Mode, cs.Limit, cs.Prefill, cs.N, cs.Need, len(admitted), inWindow))
	run.Sample(out)

	// O1: connections simultaneously in the map never exceed the cap
	if cs.Limit > 0 && len(keys) > cs.Limit {
		run.Violation("C17:maxconn|exceeded", out)
	}
	// O2: unlimited => nobody refused
	if cs.Limit == 0 && refused > 0 {
		run.Violation("C17:maxconn|unlimited-refused", out)
	}
	// O3: refused calls left nothing behind: the maps hold exactly prefill + admitted
	want := append(append([]string{}, prefillIDs...), admitted...)
	sort.Strings(want)
	if extra, missing := c17Diff(keys, want); len(extra)+len(missing) > 0 {
		run.Violation("C17:maxconn|refused-left-state|connMap", map[string]any{"outcome": out, "extra": extra, "missing": missing})
	}
	if extra, _ := c17Diff(streams, want); len(extra) > 0 {
		run.Violation("C17:maxconn|refused-left-state|streamMgr", map[string]any{"outcome": out, "extra_streams": extra})
	}
	if refused > 0 {
		run.Count("maxconn_refusals_checked", int64(refused))
	}

	// O4: at the cap, a sequential request is refused and changes nothing
	if cs.Limit > 0 && len(keys) >= cs.Limit {
		opsBefore := w.gated.Writes()
		c, err := w.sm.CreateConnection(&c17Reader{id: "c17-seq-probe"}, c17Writer{})
		k2, s2 := w.connKeys(), w.streamKeys()
		if err == nil && c != nil {
			if len(k2) > cs.Limit && len(keys) == cs.Limit {
				run.Violation("C17:maxconn|exceeded|sequential-at-cap", map[string]any{"outcome": out, "size_after_probe": len(k2)})
			}
			return
		}
		run.Count("maxconn_seq_refusals_checked", 1)
		if w.gated.Writes() != opsBefore {
			run.Count("maxconn_store_writes_during_refused_probe", w.gated.Writes()-opsBefore) // observation only
		}
		if strings.Join(k2, ",") != strings.Join(keys, ",") || strings.Join(s2, ",") != strings.Join(streams, ",") {
			ex, mi := c17Diff(k2, keys)
			sx, _ := c17Diff(s2, streams)
			run.Violation("C17:maxconn|refused-changed-state", map[string]any{"outcome": out, "connMap_extra": ex, "connMap_missing": mi,
				"streams_extra": sx, "store_writes": w.gated.Writes() - opsBefore})
		}
	}
}

func c17Prefill(w *c17SMWorld, n int) ([]string, bool) {
	var ids []string
	for i := 0; i < n; i++ {
		c, err := w.sm.CreateConnection(c17PlainReader{}, c17Writer{})
		if err != nil || c == nil {
			return ids, false
		}
		ids = append(ids, c.ID)
	}
	return ids, true
}

var c17TrialSeq atomic.Int64

// c17Pending reads SessionManager.connPending (slots reserved by admissions in flight)
// if the tree has such a field; ok=false otherwise. At quiescence it must be 0.
func (w *c17SMWorld) pending() (int64, bool) {
	f := reflect.ValueOf(w.sm).Elem().FieldByName("connPending")
	if !f.IsValid() || !f.CanInt() {
		return 0, false
	}
	w.sm.connLock.RLock()
	defer w.sm.connLock.RUnlock()
	return f.Int(), true
}

type c17FailCase struct {
	Limit      int  `json:"limit"`
	Prefill    int  `json:"prefill"`
	Failing    int  `json:"failing_admissions"`
	Valid      int  `json:"valid_admissions_racing"`
	Concurrent bool `json:"concurrent"`
}

type c17FailOutcome struct {
	Case         c17FailCase `json:"case"`
	FailedSeen   int         `json:"admissions_that_failed_after_passing_the_cap_check"`
	PendingAfter int64       `json:"connPending_at_quiescence"`
	SizeAfter    int         `json:"connmap_size_after_failures"`
	SizeFilled   int         `json:"connmap_size_after_filling_to_cap"`
	FillAdmitted int         `json:"admitted_while_filling"`
}

// c17FailedAdmissionTrial: admissions that pass the capacity check and then fail (the
// transport supplies a connection id whose stream already exists, so CreateStream
// refuses it), sequentially or racing with valid admissions; afterwards the server is
// filled until it refuses. Oracle: a failed admission changes nothing (maps, reserved
// slots), and the cap still holds afterwards.
func c17FailedAdmissionTrial(run *vk.Run, cs c17FailCase) {
	w := c17NewSMWorld(cs.Limit)
	defer w.close()
	tn := c17TrialSeq.Add(1)
	if _, ok := c17Prefill(w, cs.Prefill); !ok {
		run.Count("maxconn_prefill_refused", 1)
		return
	}
	// one live connection whose id the failing admissions will reuse
	dupID := fmt.Sprintf("c17-t%d-dupe", tn)
	if _, err := w.sm.CreateConnection(&c17Reader{id: dupID}, c17Writer{}); err != nil {
		run.Count("maxconn_prefill_refused", 1)
		return
	}
	run.Case("maxconn-failed-admission", cs)
	out := c17FailOutcome{Case: cs}
	if !cs.Concurrent {
		for i := 0; i < cs.Failing; i++ {
			k0, s0 := w.connKeys(), w.streamKeys()
			p0, hasP := w.pending()
			c, err := w.sm.CreateConnection(&c17Reader{id: dupID}, c17Writer{})
			if err == nil && c != nil {
				continue // the tree accepts a duplicate id: nothing failed, nothing to judge
			}
			out.FailedSeen++
			k1, s1 := w.connKeys(), w.streamKeys()
			p1, _ := w.pending()
			if strings.Join(k0, ",") != strings.Join(k1, ",") || strings.Join(s0, ",") != strings.Join(s1, ",") || (hasP && p0 != p1) {
				ex, mi := c17Diff(k1, k0)
				sx, sm := c17Diff(s1, s0)
				run.Violation("C17:maxconn|failed-admission-changed-state", map[string]any{"case": cs, "error": err.Error(),
					"connMap_extra": ex, "connMap_missing": mi, "streams_extra": sx, "streams_missing": sm,
					"connPending_before": p0, "connPending_after": p1})
			}
		}
	} else {
		var spin c17Spin
		var wg sync.WaitGroup
		var failed atomic.Int32
		n := cs.Failing + cs.Valid
		for i := 0; i < n; i++ {
			wg.Add(1)
			go func(i int) {
				defer wg.Done()
				id := dupID
				if i >= cs.Failing {
					id = fmt.Sprintf("c17-t%d-v%d", tn, i)
				}
				spin.wait()
				c, err := w.sm.CreateConnection(&c17Reader{id: id}, c17Writer{})
				if i < cs.Failing && (err != nil || c == nil) {
					failed.Add(1)
				}
			}(i)
		}
		okBarrier := spin.release(n)
		wg.Wait()
		if !okBarrier {
			run.Count("watchdog", 1)
			return
		}
		out.FailedSeen = int(failed.Load())
	}
	// quiescence: nothing is in flight, so no slot may be reserved (or owed)
	out.SizeAfter = len(w.connKeys())
	if p, ok := w.pending(); ok {
		out.PendingAfter = p
		run.Count("maxconn_pending_read_at_quiescence", 1)
		if p != 0 {
			run.Violation("C17:maxconn|reserved-slots-nonzero-at-quiescence", out)
		}
	}
	// fill until refused (bounded): the cap must still be the configured one
	for i := 0; i < cs.Limit+cs.Failing+3; i++ {
		if _, err := w.sm.CreateConnection(&c17Reader{id: fmt.Sprintf("c17-t%d-fill%d", tn, i)}, c17Writer{}); err != nil {
			break
		}
		out.FillAdmitted++
	}
	out.SizeFilled = len(w.connKeys())
	run.Eval(1)
	run.Count("maxconn_failed_admissions_checked", int64(out.FailedSeen))
	run.Distinct(fmt.Sprintf("maxconn|failed|L%d|P%d|F%d|V%d|conc%v|failed%d|filled%d", cs.Limit, cs.Prefill, cs.Failing, cs.Valid, cs.Concurrent, out.FailedSeen, out.SizeFilled))
	run.Sample(out)
	if out.SizeAfter > cs.Limit || out.SizeFilled > cs.Limit {
		run.Violation("C17:maxconn|exceeded|after-failed-admissions", out)
	}
}

// c17ConnTrial: real goroutines; racers are held inside the window by the gate.
func c17ConnTrial(run *vk.Run, cs c17ConnCase) {
	w := c17NewSMWorld(cs.Limit)
	defer w.close()
	prefillIDs, ok := c17Prefill(w, cs.Prefill)
	if !ok {
		run.Count("maxconn_prefill_refused", 1)
		return
	}
	tn := c17TrialSeq.Add(1)
	run.Case("maxconn", cs)
	gate := c17NewHookGate(cs.N, cs.Need)
	var spin c17Spin
	type res struct {
		id  string
		err error
	}
	results := make([]res, cs.N)
	var wg sync.WaitGroup
	for i := 0; i < cs.N; i++ {
		wg.Add(1)
		go func(i int) {
			defer wg.Done()
			var rd io.Reader
			var gr *c17Reader
			if cs.Mode == "free" {
				rd = c17PlainReader{}
			} else {
				gr = &c17Reader{id: fmt.Sprintf("c17-t%d-r%d", tn, i), gate: gate.enter}
				rd = gr
			}
			spin.wait()
			c, err := w.sm.CreateConnection(rd, c17Writer{})
			if gr != nil {
				gate.returned()
			}
			if err == nil && c != nil {
				results[i].id = c.ID
			} else if err == nil {
				err = fmt.Errorf("nil connection without error")
			}
			results[i].err = err
		}(i)
	}
	okBarrier := spin.release(cs.N)
	wg.Wait()
	if !okBarrier || gate.timedOut.Load() {
		run.Count("watchdog", 1)
		return
	}
	var admitted []string
	refused := 0
	for _, r := range results {
		if r.err != nil {
			refused++
		} else {
			admitted = append(admitted, r.id)
		}
	}
	if gate.stallOpened.Load() {
		run.Count("gate_opened_by_stall", 1)
	}
	c17JudgeConn(run, w, cs, prefillIDs, admitted, refused, int(gate.atOpen.Load()), nil)
}

func TestVerifC17MaxConn(t *testing.T) {
	vk.Quiet()
	run := vk.Start(t, "C17", "maxconn")
	defer run.Finish()
	run.Rule("SessionManager.CreateConnection with MaxConnections=L in {0,1,2,5}: fill to L-1 (or L-2), then N in {2,8,32} concurrent CreateConnection calls. " +
		"mode hold: the connections carry their own id, and the reader's GetConnectionID (called by the real code between the capacity check and the insert) holds racers until K in {2..N} are inside that window; " +
		"mode free: id-less readers (UUID path), spin barrier only; mode explore: N in {2,3} under vk.Explore (gate = GetConnectionID), all schedules with <=2 (thorough: 3) preemptions. " +
		"failed admissions: 1-3 admissions pass the cap check and then fail in CreateStream (the transport supplies the id of a live connection), sequentially with snapshot-diff around each, or racing with valid admissions; then fill until refused; reserved slots must be 0 at quiescence. " +
		"distinct = (mode, L, prefill, N, K, admitted, racers inside the window)")
	run.Floor("maxconn_trials_2plus_in_window", 100)
	run.Floor("maxconn_refusals_checked", 50)
	run.Floor("maxconn_failed_admissions_checked", 50)
	reps := run.Pick(200, 4000)
	r := run.Rand("maxconn")
	for _, L := range c17Limits {
		for _, N := range c17Ns {
			for rep := 0; rep < reps && run.Violations() < 20; rep++ {
				cs := c17ConnCase{Limit: L, N: N, Mode: "hold"}
				cs.Prefill = L - 1
				if L >= 2 && rep%4 == 3 {
					cs.Prefill = L - 2
				}
				if cs.Prefill < 0 {
					cs.Prefill = 0
				}
				// K: how many racers must be inside the window before any may proceed
				switch rep % 3 {
				case 0:
					cs.Need = N
				case 1:
					cs.Need = 2
				default:
					cs.Need = 2 + r.Intn(N-1)
				}
				if N <= 8 && rep%10 == 9 {
					cs.Mode, cs.Need = "free", 0
				}
				c17ConnTrial(run, cs)
			}
		}
	}

	// admissions that fail after the capacity check (duplicate transport-supplied id)
	failReps := run.Pick(40, 800)
	for _, L := range []int{2, 5} { // L=1: the duplicated connection alone fills the cap
		for rep := 0; rep < failReps && run.Violations() < 20; rep++ {
			// prefill + the duplicated connection stay below the cap, so the failing admissions pass the check
			cs := c17FailCase{Limit: L, Failing: 1 + rep%3, Prefill: r.Intn(L - 1)}
			if rep%2 == 1 {
				cs.Concurrent, cs.Valid = true, 1+r.Intn(4)
			}
			c17FailedAdmissionTrial(run, cs)
		}
	}

	// controlled schedules: every interleaving (<=2 preemptions) of N racers whose only
	// gate is the id lookup inside the window
	exploreRuns := run.Pick(60, 2000)
	for _, L := range []int{1, 2, 5, 0} {
		for _, N := range []int{2, 3} {
			if run.Violations() >= 20 {
				break
			}
			cs := c17ConnCase{Limit: L, N: N, Mode: "explore", Prefill: L - 1}
			if cs.Prefill < 0 {
				cs.Prefill = 0
			}
			st := vk.Explore(run.Pick(2, 3), exploreRuns, 400, func(s *vk.Sched) func(bool) {
				w := c17NewSMWorld(L)
				prefillIDs, pok := c17Prefill(w, cs.Prefill)
				var cur, maxCur atomic.Int32
				var mu sync.Mutex
				var admitted []string
				refused := 0
				for i := 0; i < N; i++ {
					i := i
					s.Go(fmt.Sprintf("r%d", i), func() {
						rd := &c17Reader{id: fmt.Sprintf("c17-x-r%d", i)}
						rd.gate = func() {
							c17StoreMax(&maxCur, cur.Add(1))
							s.Yield("GetConnectionID")
						}
						c, err := w.sm.CreateConnection(rd, c17Writer{})
						if rd.arrived.Load() {
							cur.Add(-1)
						}
						mu.Lock()
						if err == nil && c != nil {
							admitted = append(admitted, c.ID)
						} else {
							refused++
						}
						mu.Unlock()
					})
				}
				return func(ok bool) {
					defer w.close()
					if !ok || !pok {
						run.Count("watchdog", 1)
						return
					}
					mu.Lock()
					defer mu.Unlock()
					run.Distinct("maxconn|explore|" + fmt.Sprint(L, N) + "|" + s.Fingerprint())
					c17JudgeConn(run, w, cs, prefillIDs, admitted, refused, int(maxCur.Load()), s.Trace())
				}
			})
			run.Count("maxconn_explore_schedules", int64(st.Distinct))
			if st.Complete {
				run.Count("maxconn_explore_complete", 1)
			}
		}
	}
}

// ---------------------------------------------------------------------------
// (ii) ClientRegistry.Register vs MaxControlConnections
// ---------------------------------------------------------------------------

// c17RegLogger sits on the registry's own logging calls: Warnf("connection limit
// reached ...") is issued between the capacity check and the eviction, Debugf(
// "registered connection ...") after the insert — both inside the critical section
// of a correct Register. It only yields there (it never blocks), which stretches
// the window for a Register whose check and insert are not under one lock.
type c17RegLogger struct {
	corelog.NopLogger
	inEvict atomic.Int32
	maxIn   atomic.Int32
	yields  int
}

func (l *c17RegLogger) Warnf(format string, args ...interface{}) {
	if strings.Contains(format, "connection limit reached") {
		c17StoreMax(&l.maxIn, l.inEvict.Add(1))
		for i := 0; i < l.yields; i++ {
			runtime.Gosched()
		}
	}
}

func (l *c17RegLogger) Debugf(format string, args ...interface{}) {
	if strings.Contains(format, "registered connection") {
		for i := 0; i < l.yields; i++ {
			runtime.Gosched()
		}
		if l.inEvict.Load() > 0 {
			l.inEvict.Add(-1)
		}
	}
}

// c17Stream is a control connection's stream whose only live method is Close (the
// registry calls nothing else): Close runs the harness callback, which yields (a slow
// close) or holds the closer on a gate.
type c17Stream struct {
	stream.PackageStreamer
	onClose func()
}

func (s *c17Stream) Close() {
	if s.onClose != nil {
		s.onClose()
	}
}

// c17CloseGate holds the FIRST goroutine that closes an evicted stream until `others`
// further Register calls have returned, or nothing has returned for c17Stall (in a
// Register that closes under its lock the others cannot return: scheduling decision,
// never a verdict), capped by the watchdog.
type c17CloseGate struct {
	others   int32
	returned atomic.Int32
	progress atomic.Int64
	used     atomic.Bool
	held     atomic.Bool
	byCount  atomic.Bool
}

func (g *c17CloseGate) registerReturned() {
	g.returned.Add(1)
	g.progress.Store(time.Now().UnixNano())
}

func (g *c17CloseGate) hold() {
	if !g.used.CompareAndSwap(false, true) {
		return
	}
	g.held.Store(true)
	base := g.returned.Load()
	g.progress.Store(time.Now().UnixNano())
	began := time.Now()
	for time.Since(began) < c17Watchdog {
		if g.returned.Load()-base >= g.others {
			g.byCount.Store(true)
			return
		}
		if time.Since(time.Unix(0, g.progress.Load())) > c17Stall {
			return
		}
		time.Sleep(200 * time.Microsecond)
	}
}

type c17RegCase struct {
	Kind    string `json:"kind"`
	Limit   int    `json:"limit"`
	Prefill int    `json:"prefill"`
	N       int    `json:"n"`
	Yields  int    `json:"yields_in_critical_section"`
	Close   string `json:"stream_close,omitempty"` // "" = nil streams | slow = Close yields | gate = first Close held until the other Registers returned
}

type c17RegOutcome struct {
	Case        c17RegCase `json:"case"`
	MaxCount    int        `json:"max_count_observed"`
	FinalCount  int        `json:"final_count"`
	Errors      int        `json:"register_errors"`
	MaxInFlight int        `json:"max_calls_in_flight"`
	Samples     int64      `json:"sampler_reads"`
}

func c17ControlTrial(run *vk.Run, cs c17RegCase, tn int) {
	lg := &c17RegLogger{yields: cs.Yields}
	reg := NewClientRegistry(&ClientRegistryConfig{MaxConnections: cs.Limit, Logger: lg})
	cg := &c17CloseGate{others: int32(cs.N - 1)}
	var closes atomic.Int32
	mkStream := func() stream.PackageStreamer {
		switch cs.Close {
		case "slow":
			return &c17Stream{onClose: func() {
				closes.Add(1)
				for i := 0; i < 8+4*cs.Yields; i++ {
					runtime.Gosched()
				}
			}}
		case "gate":
			return &c17Stream{onClose: func() {
				closes.Add(1)
				cg.hold()
				runtime.Gosched()
			}}
		}
		return nil
	}
	base := time.Now().Add(-time.Hour)
	for i := 0; i < cs.Prefill; i++ {
		c := &ControlConnection{ConnID: fmt.Sprintf("pre-%d", i), ClientID: int64(1000 + i), Authenticated: true, CreatedAt: base.Add(time.Duration(i) * time.Second), Stream: mkStream()}
		if err := reg.Register(c); err != nil {
			run.Count("control_prefill_refused", 1)
			return
		}
	}
	run.Case("control", cs)
	var spin c17Spin
	var maxCount, inFlight, maxInFlight atomic.Int32
	var samples atomic.Int64
	var stop atomic.Bool
	errs := make([]error, cs.N)
	var wg, swg sync.WaitGroup
	swg.Add(1)
	go func() { // sampler
		defer swg.Done()
		for !stop.Load() {
			c17StoreMax(&maxCount, int32(reg.Count()))
			samples.Add(1)
			runtime.Gosched()
		}
	}()
	for i := 0; i < cs.N; i++ {
		wg.Add(1)
		go func(i int) {
			defer wg.Done()
			c := &ControlConnection{ConnID: fmt.Sprintf("c17-t%d-r%d", tn, i), ClientID: int64(5000 + i), Authenticated: true, CreatedAt: time.Now(), Stream: mkStream()}
			spin.wait()
			c17StoreMax(&maxInFlight, inFlight.Add(1))
			errs[i] = reg.Register(c)
			cg.registerReturned()
			c17StoreMax(&maxCount, int32(reg.Count()))
			inFlight.Add(-1)
		}(i)
	}
	okBarrier := spin.release(cs.N)
	wg.Wait()
	stop.Store(true)
	swg.Wait()
	if !okBarrier {
		run.Count("watchdog", 1)
		return
	}
	nerr := 0
	for _, e := range errs {
		if e != nil {
			nerr++
		}
	}
	out := c17RegOutcome{Case: cs, MaxCount: int(maxCount.Load()), FinalCount: reg.Count(), Errors: nerr,
		MaxInFlight: int(maxInFlight.Load()), Samples: samples.Load()}
	run.Eval(1)
	if out.MaxInFlight >= 2 {
		run.Count("control_trials_2plus_in_flight", 1)
	}
	run.Max("control_max_inside_evict_section", int64(lg.maxIn.Load()))
	if cs.Limit > 0 && cs.Prefill+cs.N > cs.Limit {
		run.Count("control_evictions_forced", 1)
	}
	if closes.Load() > 0 {
		run.Count("control_evicted_streams_closed", int64(closes.Load()))
	}
	if cg.held.Load() {
		run.Count("control_trials_evictor_held_in_close", 1)
	}
	if cg.byCount.Load() {
		run.Count("control_close_gate_opened_by_other_registers", 1) // only possible if Close runs outside the lock
	}
	run.Distinct(fmt.Sprintf("control|L%d|P%d|N%d|Y%d|close=%s|max%d|inflight%d", cs.Limit, cs.Prefill, cs.N, cs.Yields, cs.Close, out.MaxCount, out.MaxInFlight))
	run.Sample(out)
	if cs.Limit > 0 {
		run.Max("control_max_over_limit", int64(out.MaxCount-cs.Limit))
		if out.MaxCount > cs.Limit || out.FinalCount > cs.Limit {
			run.Violation("C17:control-cap|exceeded", out)
		}
	}
	if cs.Limit == 0 && (nerr > 0 || out.FinalCount != cs.Prefill+cs.N) {
		run.Violation("C17:control-cap|unlimited-refused", out)
	}
	// a Register that returned an error must not have recorded the connection
	for i, e := range errs {
		if e != nil && reg.GetByConnID(fmt.Sprintf("c17-t%d-r%d", tn, i)) != nil {
			run.Violation("C17:control-cap|refused-left-state", map[string]any{"outcome": out, "err": e.Error()})
		}
	}
}

func TestVerifC17ControlCap(t *testing.T) {
	vk.Quiet()
	run := vk.Start(t, "C17", "controlcap")
	defer run.Finish()
	run.Rule("ClientRegistry.Register with maxConnections=L in {0,1,2,5}: prefill L-1 or L (at the cap), N in {2,8,32} concurrent Register calls from a spin barrier, " +
		"a sampler goroutine and every racer read Count(); the registry's logger yields inside the evict section; connections carry nil streams, streams whose Close yields (slow close), or streams whose first Close (the evictor's) is held until the other N-1 Register calls returned (or nothing moves for 4 ms). distinct = (L, prefill, N, yields, max Count seen, max calls in flight)")
	run.Floor("control_trials_2plus_in_flight", 100)
	run.Floor("control_evictions_forced", 100)
	run.Floor("control_evicted_streams_closed", 100)
	run.Floor("control_trials_evictor_held_in_close", 50)
	reps := run.Pick(200, 4000)
	tn := 0
	for _, L := range c17Limits {
		for _, N := range c17Ns {
			for rep := 0; rep < reps && run.Violations() < 20; rep++ {
				cs := c17RegCase{Kind: "control", Limit: L, N: N, Prefill: L - 1, Yields: rep % 3}
				switch rep % 8 {
				case 2, 3, 6:
					cs.Close = "slow"
				case 5: // at the cap (odd rep): the first eviction's Close is held while the other Registers run
					cs.Close = "gate"
				}
				if rep%2 == 1 {
					cs.Prefill = L
				}
				if cs.Prefill < 0 {
					cs.Prefill = 0
				}
				tn++
				c17ControlTrial(run, cs, tn)
			}
		}
	}
}

// ---------------------------------------------------------------------------
// (ii-b) TunnelRegistry.Register vs MaxTunnels (refusing cap)
// ---------------------------------------------------------------------------

// c17YieldLogger yields on every Debugf/Warnf: both are issued by TunnelRegistry.Register
// while it holds its lock, so the other racers pile up behind it (calls overlap in time).
type c17YieldLogger struct {
	corelog.NopLogger
	yields int
}

func (l *c17YieldLogger) Debugf(string, ...interface{}) {
	for i := 0; i < l.yields; i++ {
		runtime.Gosched()
	}
}
func (l *c17YieldLogger) Warnf(string, ...interface{}) {
	for i := 0; i < l.yields; i++ {
		runtime.Gosched()
	}
}

func c17TunnelTrial(run *vk.Run, cs c17RegCase, tn int) {
	reg := NewTunnelRegistry(&TunnelRegistryConfig{MaxTunnels: cs.Limit, Logger: &c17YieldLogger{yields: cs.Yields}})
	want := map[string]bool{}
	for i := 0; i < cs.Prefill; i++ {
		id := fmt.Sprintf("pre-%d", i)
		if err := reg.Register(&TunnelConnection{ConnID: id, TunnelID: "tun-" + id}); err != nil {
			run.Count("tunnel_prefill_refused", 1)
			return
		}
		want[id] = true
	}
	run.Case("tunnel", cs)
	var spin c17Spin
	var maxCount, inFlight, maxInFlight atomic.Int32
	var stop atomic.Bool
	errs := make([]error, cs.N)
	var wg, swg sync.WaitGroup
	swg.Add(1)
	go func() {
		defer swg.Done()
		for !stop.Load() {
			c17StoreMax(&maxCount, int32(reg.Count()))
			runtime.Gosched()
		}
	}()
	for i := 0; i < cs.N; i++ {
		wg.Add(1)
		go func(i int) {
			defer wg.Done()
			id := fmt.Sprintf("c17-t%d-r%d", tn, i)
			c := &TunnelConnection{ConnID: id, TunnelID: "tun-" + id}
			spin.wait()
			c17StoreMax(&maxInFlight, inFlight.Add(1))
			errs[i] = reg.Register(c)
			c17StoreMax(&maxCount, int32(reg.Count()))
			inFlight.Add(-1)
		}(i)
	}
	okBarrier := spin.release(cs.N)
	wg.Wait()
	stop.Store(true)
	swg.Wait()
	if !okBarrier {
		run.Count("watchdog", 1)
		return
	}
	refused := 0
	for i, e := range errs {
		if e != nil {
			refused++
		} else {
			want[fmt.Sprintf("c17-t%d-r%d", tn, i)] = true
		}
	}
	reg.mu.RLock()
	connKeys := c17SortedKeys(reg.connMap)
	tunKeys := c17SortedKeys(reg.tunnelMap)
	reg.mu.RUnlock()
	out := c17RegOutcome{Case: cs, MaxCount: int(maxCount.Load()), FinalCount: len(connKeys), Errors: refused, MaxInFlight: int(maxInFlight.Load())}
	run.Eval(1)
	if out.MaxInFlight >= 2 {
		run.Count("tunnel_trials_2plus_in_flight", 1)
	}
	if refused > 0 {
		run.Count("tunnel_refusals_checked", int64(refused))
	}
	run.Distinct(fmt.Sprintf("tunnel|L%d|P%d|N%d|Y%d|max%d|ref%d|inflight%d", cs.Limit, cs.Prefill, cs.N, cs.Yields, out.MaxCount, refused, out.MaxInFlight))
	run.Sample(out)
	if cs.Limit > 0 && (out.MaxCount > cs.Limit || out.FinalCount > cs.Limit) {
		run.Violation("C17:tunnel-cap|exceeded", out)
	}
	if cs.Limit == 0 && refused > 0 {
		run.Violation("C17:tunnel-cap|unlimited-refused", out)
	}
	wantKeys := c17SortedKeys(want)
	if extra, missing := c17Diff(connKeys, wantKeys); len(extra)+len(missing) > 0 {
		run.Violation("C17:tunnel-cap|refused-left-state|connMap", map[string]any{"outcome": out, "extra": extra, "missing": missing})
	}
	var wantTun []string
	for _, k := range wantKeys {
		wantTun = append(wantTun, "tun-"+k)
	}
	sort.Strings(wantTun)
	if extra, _ := c17Diff(tunKeys, wantTun); len(extra) > 0 {
		run.Violation("C17:tunnel-cap|refused-left-state|tunnelMap", map[string]any{"outcome": out, "extra": extra})
	}
}

// c17TunnelAudit is the registry state as its own lookups show it: which connection
// object every known connection id / tunnel id resolves to, the count and the listing.
func c17TunnelAudit(reg *TunnelRegistry, connIDs, tunnelIDs []string) map[string]string {
	a := map[string]string{"count": fmt.Sprint(reg.Count()), "listed": fmt.Sprint(len(reg.List()))}
	for _, id := range connIDs {
		a["conn:"+id] = fmt.Sprintf("%p", reg.GetByConnID(id))
	}
	for _, id := range tunnelIDs {
		c := reg.GetByTunnelID(id)
		a["tunnel:"+id] = fmt.Sprintf("%p", c)
		if c != nil {
			a["tunnel:"+id] += "/" + c.ConnID + "/" + c.TunnelID
		}
	}
	return a
}

// c17TunnelReRegisterTrial: the registry is exactly full; one more registration arrives
// (variant: a new connection, a known connection id with the same / a different / no
// tunnel id, a new connection claiming a known tunnel id) and is refused for capacity.
// Oracle: after a refusal every lookup, the count and the listing are what they were.
func c17TunnelReRegisterTrial(run *vk.Run, L, pos int, variant string) {
	reg := NewTunnelRegistry(&TunnelRegistryConfig{MaxTunnels: L, Logger: corelog.NewNopLogger()})
	var connIDs, tunnelIDs []string
	for i := 0; i < L; i++ {
		id := fmt.Sprintf("conn-%d", i)
		if err := reg.Register(&TunnelConnection{ConnID: id, TunnelID: "tun-" + id, MappingID: "m"}); err != nil {
			run.Count("tunnel_prefill_refused", 1)
			return
		}
		connIDs = append(connIDs, id)
		tunnelIDs = append(tunnelIDs, "tun-"+id)
	}
	known := connIDs[pos%L]
	req := &TunnelConnection{MappingID: "m"}
	switch variant {
	case "new-conn":
		req.ConnID, req.TunnelID = "conn-new", "tun-new"
	case "known-conn-same-tunnel":
		req.ConnID, req.TunnelID = known, "tun-"+known
	case "known-conn-other-tunnel":
		req.ConnID, req.TunnelID = known, "tun-reopened"
	case "known-conn-no-tunnel":
		req.ConnID = known
	case "new-conn-known-tunnel":
		req.ConnID, req.TunnelID = "conn-new", "tun-"+known
	}
	connIDs = append(connIDs, "conn-new")
	tunnelIDs = append(tunnelIDs, "tun-new", "tun-reopened")
	cs := map[string]any{"max_tunnels": L, "variant": variant, "known_conn": known}
	run.Case("tunnel-reregister", cs)
	before := c17TunnelAudit(reg, connIDs, tunnelIDs)
	err := reg.Register(req)
	after := c17TunnelAudit(reg, connIDs, tunnelIDs)
	run.Eval(1)
	run.Distinct(fmt.Sprintf("tunnel|reregister|L%d|p%d|%s|refused%v", L, pos%L, variant, err != nil))
	if reg.Count() > L {
		cs["count_after"] = reg.Count()
		run.Violation("C17:tunnel-cap|exceeded|re-register-at-capacity", cs)
		return
	}
	if err == nil {
		run.Count("tunnel_reregister_admitted_at_capacity", 1) // e.g. a replacement that does not grow the registry
		return
	}
	run.Count("tunnel_reregister_refusals_audited", 1)
	var diff []string
	for k, v := range before {
		if after[k] != v {
			diff = append(diff, fmt.Sprintf("%s: %s -> %s", k, v, after[k]))
		}
	}
	if len(diff) > 0 {
		sort.Strings(diff)
		cs["changed"] = diff
		cs["error"] = err.Error()
		run.Violation("C17:tunnel-cap|refused-changed-state|re-register-at-capacity", cs)
	}
}

func TestVerifC17TunnelCap(t *testing.T) {
	vk.Quiet()
	run := vk.Start(t, "C17", "tunnelcap")
	defer run.Finish()
	run.Rule("TunnelRegistry.Register with maxTunnels=L in {0,1,2,5}: prefill L-1, N in {2,8,32} concurrent Register calls from a spin barrier, sampler on Count(); " +
		"afterwards connMap/tunnelMap must hold exactly prefill + admitted; sequential histories: registry exactly full, one more Register (new connection, known connection id with the same / another / no tunnel id, new connection claiming a known tunnel id) with a full audit of lookups by connection id and tunnel id, Count and List before/after a refusal. distinct = (L, prefill, N, max Count, refused, max calls in flight)")
	run.Floor("tunnel_trials_2plus_in_flight", 100)
	run.Floor("tunnel_refusals_checked", 100)
	run.Floor("tunnel_reregister_refusals_audited", 30)
	for _, L := range []int{1, 2, 3, 5} {
		for pos := 0; pos < L; pos++ {
			for _, v := range []string{"new-conn", "known-conn-same-tunnel", "known-conn-other-tunnel", "known-conn-no-tunnel", "new-conn-known-tunnel"} {
				c17TunnelReRegisterTrial(run, L, pos, v)
			}
		}
	}
	reps := run.Pick(200, 4000)
	tn := 0
	for _, L := range c17Limits {
		for _, N := range c17Ns {
			for rep := 0; rep < reps && run.Violations() < 20; rep++ {
				cs := c17RegCase{Kind: "tunnel", Limit: L, N: N, Prefill: L - 1, Yields: 1 + rep%3}
				if cs.Prefill < 0 {
					cs.Prefill = 0
				}
				tn++
				c17TunnelTrial(run, cs, tn)
			}
		}
	}
}
