//go:build verif && verif_c17

package services

import (
	"context"
	"encoding/json"
	"fmt"
	"math/rand"
	"runtime"
	"sort"
	"strings"
	"sync"
	"sync/atomic"
	"testing"
	"time"

	"tunnox-core/internal/cloud/models"
	"tunnox-core/internal/cloud/repos"
	"tunnox-core/internal/constants"
	"tunnox-core/internal/core/idgen"
	"tunnox-core/internal/core/storage"
	"tunnox-core/internal/core/storage/memory"
	vk "tunnox-core/internal/verifkit"
)

// C17 (iv) — per-client quotas of the connection-code service.
//
//   TestVerifC17CodeQuota     CreateConnectionCode vs MaxActiveCodesPerClient
//   TestVerifC17MappingQuota  ActivateConnectionCode vs MaxActiveMappingsPerClient
//
// Real ConnectionCodeService / PortMappingService / repositories / IDManager on the
// memory backend behind vk.Gated. Both admissions are "count what is stored, then
// store one more" over several storage operations; racers are interleaved at
// storage-operation granularity by (a) a hold gate at the first mutating operation of
// a request (every read it needed for the count is done by then), (b) vk.Sched with a
// seeded random chooser, (c) vk.Explore over all schedules with <= 2 preemptions.
// Oracle: after the burst, the number of active codes / active mappings of the client
// as the service itself counts them is <= quota; a refused request left the store
// content byte-identical.

const c17Watchdog = 5 * time.Second

func c17IsWrite(op string) bool {
	switch op {
	case "Get", "Exists", "GetList", "GetHash", "GetAllHash", "GetExpiration", "BatchGet", "QueryByField", "QueryByPrefix":
		return false
	}
	return true
}

// c17HookGate holds requests inside the check->record window until `need` of them are
// there, or every racer is accounted for (inside, or returned while the gate was still
// closed = refused at the check), or nothing has moved for c17Stall (the remaining
// racers are blocked on something the code under test holds, e.g. a lock around
// check+record: a scheduling decision, never a verdict). Every wait is capped.
type c17HookGate struct {
	n, need     int32
	arrived     atomic.Int32
	early       atomic.Int32
	atOpen      atomic.Int32
	progress    atomic.Int64 // unix nanos of the last arrival / early return
	open        chan struct{}
	once        sync.Once
	timedOut    atomic.Bool
	stallOpened atomic.Bool
}

const c17Stall = 4 * time.Millisecond

func c17NewHookGate(n, need int) *c17HookGate {
	if need > n {
		need = n
	}
	if need < 1 {
		need = 1
	}
	g := &c17HookGate{n: int32(n), need: int32(need), open: make(chan struct{})}
	g.progress.Store(time.Now().UnixNano())
	return g
}

func (g *c17HookGate) openNow() {
	g.once.Do(func() {
		g.atOpen.Store(g.arrived.Load())
		close(g.open)
	})
}

func (g *c17HookGate) maybeOpen() {
	a := g.arrived.Load()
	if a >= g.need || a+g.early.Load() >= g.n {
		g.openNow()
	}
}

func (g *c17HookGate) isOpen() bool {
	select {
	case <-g.open:
		return true
	default:
		return false
	}
}

func (g *c17HookGate) enter() {
	if g.isOpen() {
		return
	}
	g.arrived.Add(1)
	g.progress.Store(time.Now().UnixNano())
	g.maybeOpen()
	began := time.Now()
	for {
		select {
		case <-g.open:
			return
		case <-time.After(time.Millisecond):
			if time.Since(time.Unix(0, g.progress.Load())) > c17Stall {
				g.stallOpened.Store(true)
				g.openNow()
				return
			}
			if time.Since(began) > c17Watchdog {
				g.timedOut.Store(true)
				return
			}
		}
	}
}

// returned: while the gate is closed every racer that arrived is still held, so a
// return seen before the gate opens belongs to a racer refused at the check.
func (g *c17HookGate) returned() {
	if !g.isOpen() {
		g.early.Add(1)
		g.progress.Store(time.Now().UnixNano())
		g.maybeOpen()
	}
}

type c17Spin struct {
	ready atomic.Int32
	goNow atomic.Int32
}

func (b *c17Spin) wait() {
	b.ready.Add(1)
	for i := 0; i < 50_000_000 && b.goNow.Load() == 0; i++ {
		if i&15 == 15 {
			runtime.Gosched()
		}
	}
}

func (b *c17Spin) release(n int) bool {
	dl := time.Now().Add(c17Watchdog)
	for b.ready.Load() < int32(n) {
		if time.Now().After(dl) {
			b.goNow.Store(1)
			return false
		}
		runtime.Gosched()
	}
	b.goNow.Store(1)
	return true
}

// ---- world ----

type c17QWorld struct {
	cancel context.CancelFunc
	mem    *memory.Storage
	g      *vk.Gated
	svc    *ConnectionCodeService   // node 0
	svcs   []*ConnectionCodeService // one per node, all on the same store
	build  *ConnectionCodeService   // same store, quotas 1000/1000: writes histories the quota under test would refuse to build
	ccRepo *repos.ConnectionCodeRepository
	pmRepo *repos.PortMappingRepo
}

var c17AddrSeq atomic.Int64

// c17NewQWorld assembles `nodes` service instances (each with its own repositories, id
// manager and port-mapping service, as separate server processes would have) over one
// shared store.
func c17NewQWorld(codeQuota, mapQuota, nodes int) *c17QWorld {
	return c17NewQWorldOn("memory", codeQuota, mapQuota, nodes)
}

// c17NewQWorldOn: backend "memory" = all nodes on one store; "hybrid" = the clustered
// deployment: every node has its own HybridStorage (own local memory cache + the cluster's
// ONE shared cache, no database) with the default prefix routing. w.mem / w.g are the
// shared tier in both cases.
func c17NewQWorldOn(backend string, codeQuota, mapQuota, nodes int) *c17QWorld {
	ctx, cancel := context.WithCancel(context.Background())
	w := &c17QWorld{cancel: cancel}
	w.mem = memory.New(ctx)
	tier := "mem"
	if backend == "hybrid" {
		tier = "shared"
	}
	w.g = vk.NewGated(tier, w.mem)
	w.g.SetHook(nil)
	if nodes < 1 {
		nodes = 1
	}
	for i := 0; i < nodes; i++ {
		var st storage.Storage = w.g
		if backend == "hybrid" {
			st = storage.NewHybridStorageWithSharedCache(ctx, memory.New(ctx), w.g, nil, nil)
		}
		repo := repos.NewRepository(st)
		ccRepo := repos.NewConnectionCodeRepository(repo)
		pmRepo := repos.NewPortMappingRepo(repo)
		idm := idgen.NewIDManager(st, ctx)
		pmSvc := NewPortMappingService(pmRepo, idm, nil, ctx)
		svc := NewConnectionCodeService(ccRepo, pmSvc, pmRepo,
			&ConnectionCodeServiceConfig{MaxActiveCodesPerClient: codeQuota, MaxActiveMappingsPerClient: mapQuota}, ctx)
		w.svcs = append(w.svcs, svc)
		if i == 0 {
			w.svc, w.ccRepo, w.pmRepo = svc, ccRepo, pmRepo
			w.build = NewConnectionCodeService(ccRepo, pmSvc, pmRepo,
				&ConnectionCodeServiceConfig{MaxActiveCodesPerClient: 1000, MaxActiveMappingsPerClient: 1000}, ctx)
		}
	}
	return w
}

func (w *c17QWorld) close() { w.g.SetHook(nil); w.cancel() }

func (w *c17QWorld) snapshot() map[string]string {
	m, _ := w.mem.QueryByPrefix("", 0)
	return m
}

func c17SnapDiff(a, b map[string]string) []string {
	var d []string
	for k, v := range a {
		if bv, ok := b[k]; !ok {
			d = append(d, "removed:"+k)
		} else if bv != v {
			d = append(d, "changed:"+k)
		}
	}
	for k := range b {
		if _, ok := a[k]; !ok {
			d = append(d, "added:"+k)
		}
	}
	sort.Strings(d)
	return d
}

func (w *c17QWorld) createCode(target int64) (*models.TunnelConnectionCode, error) {
	return w.createCodeOn(0, target)
}

func (w *c17QWorld) createCodeOn(node int, target int64) (*models.TunnelConnectionCode, error) {
	n := c17AddrSeq.Add(1)
	return w.svcs[node%len(w.svcs)].CreateConnectionCode(&CreateConnectionCodeRequest{
		TargetClientID:  target,
		TargetAddress:   fmt.Sprintf("tcp://10.17.%d.%d:%d", (n>>8)&0xff, n&0xff, 10000+int(n%50000)),
		ActivationTTL:   10 * time.Minute,
		MappingDuration: time.Hour,
		Description:     "c17",
		CreatedBy:       "c17",
	})
}

func (w *c17QWorld) activate(code string, listen int64) (*models.PortMapping, error) {
	return w.activateOn(0, code, listen)
}

func (w *c17QWorld) activateOn(node int, code string, listen int64) (*models.PortMapping, error) {
	n := c17AddrSeq.Add(1)
	return w.svcs[node%len(w.svcs)].ActivateConnectionCode(&ActivateConnectionCodeRequest{
		Code: code, ListenClientID: listen, ListenAddress: fmt.Sprintf("0.0.0.0:%d", 10000+int(n%50000)),
	})
}

func (w *c17QWorld) activeCodes(target int64) int {
	n, _ := w.ccRepo.CountActiveByTargetClient(target)
	return n
}

func (w *c17QWorld) activeMappings(listen int64) int {
	ms, _ := w.pmRepo.GetClientPortMappings(fmt.Sprint(listen))
	n := 0
	for _, m := range ms {
		// the service counts every active mapping found in the client's index, whether the
		// client is its listener or its target (activation.go step 5)
		if (m.ListenClientID == listen || m.TargetClientID == listen) && m.Status == models.MappingStatusActive && !m.IsRevoked && !m.IsExpired() {
			n++
		}
	}
	return n
}

type c17QCase struct {
	Kind    string `json:"kind"` // code-quota | mapping-quota
	Quota   int    `json:"quota"`
	Prefill int    `json:"prefill"`
	N       int    `json:"n"`
	Need    int    `json:"hold_until_counted"`
	Mode    string `json:"mode"` // hold | free | sched | explore
	Nodes   int    `json:"nodes"`
	Readers int    `json:"concurrent_readers,omitempty"`
	Backend string `json:"backend,omitempty"` // "" = one memory store | hybrid = per-node HybridStorage over one shared cache
}

type c17QOutcome struct {
	Case     c17QCase `json:"case"`
	Admitted int      `json:"admitted_by_racers"`
	Refused  int      `json:"refused_racers"`
	Active   int      `json:"active_after_burst"`
	InWindow int      `json:"racers_between_count_and_record"`
	Schedule []string `json:"schedule,omitempty"`
}

const (
	c17Target = int64(31000001)
	c17Listen = int64(32000001)
)

// c17Setup fills the world to cs.Prefill and returns one request function per racer.
func c17Setup(w *c17QWorld, cs c17QCase) (reqs []func() error, probes func() (func() error, func() bool), ok bool) {
	if cs.Kind == "code-quota" {
		for i := 0; i < cs.Prefill; i++ {
			if _, err := w.createCode(c17Target); err != nil {
				return nil, nil, false
			}
		}
		for i := 0; i < cs.N; i++ {
			i := i
			reqs = append(reqs, func() error { _, err := w.createCodeOn(i, c17Target); return err })
		}
		probes = func() (func() error, func() bool) {
			return func() error { _, err := w.createCode(c17Target); return err }, func() bool { return true }
		}
		return reqs, probes, true
	}
	// mapping-quota: every activation uses its own fresh code of its own target client
	for i := 0; i < cs.Prefill; i++ {
		c, err := w.createCode(c17Target + 100 + int64(i))
		if err != nil {
			return nil, nil, false
		}
		if _, err := w.activate(c.Code, c17Listen); err != nil {
			return nil, nil, false
		}
	}
	for i := 0; i < cs.N; i++ {
		c, err := w.createCode(c17Target + 1000 + int64(i))
		if err != nil {
			return nil, nil, false
		}
		code := c.Code
		i := i
		reqs = append(reqs, func() error { _, err := w.activateOn(i, code, c17Listen); return err })
	}
	probes = func() (func() error, func() bool) {
		c, err := w.createCode(c17Target + 5000)
		if err != nil {
			return nil, nil
		}
		code := c.Code
		return func() error { _, err := w.activate(code, c17Listen); return err },
			func() bool { // a refused activation leaves the code usable
				cc, err := w.ccRepo.GetByCode(code)
				return err == nil && cc.IsValidForActivation()
			}
	}
	return reqs, probes, true
}

// usable counts what a client can actually use right now, read from the records in the
// store and independent of the per-client indexes the service counts through: codes of
// the target client that are valid for activation / active mappings of the listener.
func (w *c17QWorld) usable(cs c17QCase) int {
	if cs.Kind == "code-quota" {
		return w.usableOf(cs.Kind, c17Target)
	}
	return w.usableOf(cs.Kind, c17Listen)
}

// usableOf asks the product's own validity predicates (TunnelConnectionCode.
// IsValidForActivation, PortMapping.IsValid: what activation / tunnel admission accept),
// never the raw field values: "usable => occupies the quota".
func (w *c17QWorld) usableOf(kind string, client int64) int {
	n := 0
	if kind == "code-quota" {
		recs, _ := w.mem.QueryByPrefix(constants.KeyPrefixRuntimeConnectionCodeByCode, 0)
		for _, js := range recs {
			var c models.TunnelConnectionCode
			if json.Unmarshal([]byte(js), &c) == nil && c.TargetClientID == client && c.IsValidForActivation() {
				n++
			}
		}
		return n
	}
	recs, _ := w.mem.QueryByPrefix(constants.KeyPrefixPortMapping+":", 0)
	for _, js := range recs {
		var m models.PortMapping
		if json.Unmarshal([]byte(js), &m) == nil && (m.ListenClientID == client || m.TargetClientID == client) && m.IsValid() {
			n++
		}
	}
	return n
}

// active = the larger of the service's own count (through the index) and the usable
// records in the store: an entry the count cannot see still occupies the quota.
func (w *c17QWorld) active(cs c17QCase) int {
	n := w.activeMappings(c17Listen)
	if cs.Kind == "code-quota" {
		n = w.activeCodes(c17Target)
	}
	if u := w.usable(cs); u > n {
		n = u
	}
	return n
}

// interposedRead is a read-only request of the same client that takes no quota lock
// (the "list my codes / my mappings" API), served by the given node.
func (w *c17QWorld) interposedRead(cs c17QCase, node int) {
	svc := w.svcs[node%len(w.svcs)]
	if cs.Kind == "code-quota" {
		_, _ = svc.ListConnectionCodesByTargetClient(c17Target)
		return
	}
	_, _ = svc.ListOutboundMappings(c17Listen)
	_, _ = svc.ListInboundMappings(c17Listen)
}

// c17IndexWritersTrial (mapping quota): client X's mapping index has writers that hold
// different quota locks: X's own activations (X = listener) and the activation, by
// another client Y, of a code whose target is X. One of the two activations is
// suspended before its j-th storage operation while the other runs to completion
// (both orders, every j). Afterwards X keeps activating. Oracle, at quiescence: an
// activation by X is refused whenever the active mappings of X that are really in the
// store (X as listener or target: what the service counts) have reached the quota.
func c17IndexWritersTrial(run *vk.Run, Q int, outer string, j int) int {
	cs := c17QCase{Kind: "mapping-quota", Quota: Q, Prefill: Q - 2, N: 1, Mode: "index-writers|" + outer + "-suspended", Nodes: 1, Need: j}
	w := c17NewQWorld(1000, Q, 1)
	defer w.close()
	reqs, probes, ok := c17Setup(w, cs)
	if !ok {
		run.Count("mapping-quota_prefill_refused", 1)
		return 0
	}
	const clientY = c17Listen + 7
	cx, err := w.createCode(c17Listen) // X is the target of this code; Y activates it
	if err != nil {
		return 0
	}
	actX := reqs[0]
	actY := func() error { _, err := w.activate(cx.Code, clientY); return err }
	first, second := actX, actY
	if outer == "Y" {
		first, second = actY, actX
	}
	run.Case("mapping-quota-index-writers", cs)
	var opn atomic.Int64
	var inside atomic.Bool
	var served atomic.Int32
	var blocked chan struct{}
	w.g.SetHook(func(tier, op, key string) error {
		if inside.Load() {
			return nil
		}
		if n := opn.Add(1) - 1; int(n) == j {
			inside.Store(true)
			done := make(chan struct{})
			go func() { defer close(done); _ = second() }()
			select {
			case <-done:
				served.Add(1)
			case <-time.After(30 * time.Millisecond): // blocked behind the suspended one (singleflight): let it resume
				blocked = done
			}
			inside.Store(false)
		}
		return nil
	})
	_ = first()
	w.g.SetHook(nil)
	if blocked != nil {
		select {
		case <-blocked:
		case <-time.After(c17Watchdog):
			run.Count("watchdog", 1)
			return int(opn.Load())
		}
	}
	ops := int(opn.Load())
	if j < 0 {
		_ = second()
	}
	// quiescent from here on: X keeps activating
	for i := 0; i < Q+3; i++ {
		probe, _ := probes()
		if probe == nil {
			break
		}
		before := w.usable(cs)
		err := probe()
		if err == nil && before >= Q {
			run.Violation("C17:mapping-quota|exceeded|admitted-at-full-quota-after-index-writers-raced", map[string]any{"case": cs,
				"suspended_before_storage_op": j, "storage_ops": ops, "active_mappings_of_client_in_store_before": before,
				"service_count_before": "lower (index entry lost)", "active_after": w.usable(cs), "quota": Q})
			break
		}
		if err != nil {
			break
		}
	}
	run.Eval(1)
	if served.Load() > 0 {
		run.Count("mapping-quota_index_writer_positions", 1)
	}
	run.Distinct(fmt.Sprintf("mapping-quota|index-writers|%s|Q%d|op%d/%d|usable%d", outer, Q, j, ops, w.usable(cs)))
	return ops
}

// c17HistoryEntry builds one entry of a client's history through the builder service and
// returns a function that turns it stale (its records vanish as after TTL expiry while the
// index entry stays). what: "L" live, "S" stale, or a status spelling for a mapping.
func (w *c17QWorld) buildEntry(kind string, client int64, ttl time.Duration) (id string, makeStale func(), mapping *models.PortMapping, err error) {
	n := c17AddrSeq.Add(1)
	target := client
	if kind == "mapping-quota" {
		target = c17Target + 20000 + n%1000
	}
	c, err := w.build.CreateConnectionCode(&CreateConnectionCodeRequest{
		TargetClientID: target, TargetAddress: fmt.Sprintf("tcp://10.18.%d.%d:%d", (n>>8)&0xff, n&0xff, 10000+int(n%50000)),
		ActivationTTL: ttl, MappingDuration: time.Hour, Description: "c17-history", CreatedBy: "c17",
	})
	if err != nil {
		return "", nil, nil, err
	}
	if kind == "code-quota" {
		return c.ID, func() {
			_ = w.mem.Delete(constants.KeyPrefixRuntimeConnectionCodeByCode + c.Code)
			_ = w.mem.Delete(constants.KeyPrefixRuntimeConnectionCodeByID + c.ID)
		}, nil, nil
	}
	m, err := w.build.ActivateConnectionCode(&ActivateConnectionCodeRequest{Code: c.Code, ListenClientID: client, ListenAddress: fmt.Sprintf("0.0.0.0:%d", 10000+int(n%50000))})
	if err != nil {
		return "", nil, nil, err
	}
	return m.ID, func() { _ = w.mem.Delete(constants.KeyPrefixPortMapping + ":" + m.ID) }, m, nil
}

// request makes one quota-governed request of the client through node 0 (the quota under test).
func (w *c17QWorld) request(kind string, client int64) error {
	n := c17AddrSeq.Add(1)
	if kind == "code-quota" {
		_, err := w.svcs[0].CreateConnectionCode(&CreateConnectionCodeRequest{
			TargetClientID: client, TargetAddress: fmt.Sprintf("tcp://10.19.%d.%d:%d", (n>>8)&0xff, n&0xff, 10000+int(n%50000)),
			ActivationTTL: 10 * time.Minute, MappingDuration: time.Hour, CreatedBy: "c17",
		})
		return err
	}
	c, err := w.build.CreateConnectionCode(&CreateConnectionCodeRequest{
		TargetClientID: c17Target + 30000 + n%1000, TargetAddress: fmt.Sprintf("tcp://10.19.%d.%d:%d", (n>>8)&0xff, n&0xff, 10000+int(n%50000)),
		ActivationTTL: 10 * time.Minute, MappingDuration: time.Hour, CreatedBy: "c17",
	})
	if err != nil {
		return fmt.Errorf("c17 setup: %w", err)
	}
	_, err = w.svcs[0].ActivateConnectionCode(&ActivateConnectionCodeRequest{Code: c.Code, ListenClientID: client, ListenAddress: fmt.Sprintf("0.0.0.0:%d", 10000+int(n%50000))})
	return err
}

// c17ObjectHistoryTrial: the client's index is built entry by entry from `pattern`
// (L = live entry, S = entry whose records are gone while the index still references it,
// for mappings also a status spelling such as "Active" written the way the management API
// stores it: verbatim). Then the client makes requests until one is refused. Oracle: a
// request made while the client's USABLE records (per the product's validity predicate)
// have reached the quota is refused.
func c17ObjectHistoryTrial(run *vk.Run, kind string, Q int, client int64, pattern []string, realTTL bool) {
	var w *c17QWorld
	if kind == "code-quota" {
		w = c17NewQWorld(Q, 1000, 1)
	} else {
		w = c17NewQWorld(1000, Q, 1)
	}
	defer w.close()
	cs := map[string]any{"kind": kind, "quota": Q, "client": client, "index_history": strings.Join(pattern, ","), "stale_by_real_ttl": realTTL}
	run.Case(kind+"-object-history", cs)
	var stale []func()
	var staleIDs []string
	for _, e := range pattern {
		ttl := 10 * time.Minute
		if e == "S" && realTTL && kind == "code-quota" {
			ttl = 15 * time.Millisecond
		}
		id, mk, m, err := w.buildEntry(kind, client, ttl)
		if err != nil {
			run.Count(kind+"_prefill_refused", 1)
			return
		}
		recKey := constants.KeyPrefixPortMapping + ":" + id
		if kind == "code-quota" {
			recKey = constants.KeyPrefixRuntimeConnectionCodeByID + id
		}
		switch {
		case e == "L":
		case e == "P": // a mapping without expiry date, as created through the management API / for registered users
			m.ExpiresAt = nil
			if err := w.pmRepo.UpdatePortMapping(m); err != nil {
				run.Count(kind+"_prefill_refused", 1)
				return
			}
			run.Count(kind+"_object_history_permanent_entries", 1)
		case e == "X": // the record exists but cannot be decoded (a field of an incompatible type)
			_ = w.mem.Set(recKey, fmt.Sprintf(`{"id":%q,"listen_client_id":"not-a-number","target_client_id":[1],"created_at":17}`, id), time.Hour)
		case e == "T": // the record exists but the stored value has another type
			_ = w.mem.Set(recKey, 4242, time.Hour)
		case e == "S":
			if realTTL && kind == "code-quota" {
				staleIDs = append(staleIDs, id)
			} else {
				stale = append(stale, mk)
			}
		default: // a status spelling, stored verbatim
			m.Status = models.MappingStatus(e)
			if err := w.pmRepo.UpdatePortMapping(m); err != nil {
				run.Count(kind+"_prefill_refused", 1)
				return
			}
		}
	}
	for _, mk := range stale {
		mk()
	}
	if len(staleIDs) > 0 { // wait (bounded) for the short-lived records to expire on their own
		dl := time.Now().Add(2 * time.Second)
		for _, id := range staleIDs {
			for {
				if _, err := w.mem.Get(constants.KeyPrefixRuntimeConnectionCodeByID + id); err != nil {
					break
				}
				if time.Now().After(dl) {
					run.Count("watchdog", 1)
					return
				}
				time.Sleep(2 * time.Millisecond)
			}
		}
	}
	type step struct {
		Before   int  `json:"usable_before"`
		Admitted bool `json:"admitted"`
	}
	var steps []step
	for i := 0; i < Q+3; i++ {
		before := w.usableOf(kind, client)
		err := w.request(kind, client)
		if err != nil && strings.HasPrefix(err.Error(), "c17 setup") {
			return
		}
		steps = append(steps, step{before, err == nil})
		if err == nil && before >= Q {
			cs["requests"] = steps
			cs["usable_after"] = w.usableOf(kind, client)
			run.Violation("C17:"+kind+"|exceeded|after-object-history", cs)
			break
		}
		if err != nil {
			if before >= Q {
				run.Count(kind+"_object_history_refused_at_quota", 1)
			}
			break
		}
	}
	run.Eval(1)
	run.Count(kind+"_object_histories", 1)
	run.Distinct(fmt.Sprintf("%s|object-history|Q%d|c%d|%s|ttl%v|usable%d", kind, Q, client, strings.Join(pattern, ""), realTTL, w.usableOf(kind, client)))
}

// c17Patterns enumerates index histories over the alphabet with exactly `live` entries
// that are not the first letter's kind... all strings of the given length with `live` L's.
func c17Patterns(length, live int, other []string) [][]string {
	var out [][]string
	var rec func(pos, l int, cur []string)
	rec = func(pos, l int, cur []string) {
		if pos == length {
			if l == live {
				out = append(out, append([]string(nil), cur...))
			}
			return
		}
		if l < live {
			rec(pos+1, l+1, append(cur, "L"))
		}
		if length-pos > live-l {
			for _, o := range other {
				rec(pos+1, l, append(cur, o))
			}
		}
	}
	rec(0, 0, nil)
	return out
}

// c17SequentialNodesTrial: strictly sequential requests of one client, served by the
// nodes of a clustered deployment in turn (each node behind its own tiered storage over
// the cluster's shared cache). Oracle: a request made while the client's usable entries
// in the shared store have reached the quota is refused, whichever node serves it.
func c17SequentialNodesTrial(run *vk.Run, kind string, Q, nodes, firstNode int) {
	cs := c17QCase{Kind: kind, Quota: Q, N: 0, Mode: "sequential-across-nodes", Nodes: nodes, Backend: "hybrid", Need: firstNode}
	var w *c17QWorld
	if kind == "code-quota" {
		w = c17NewQWorldOn("hybrid", Q, 1000, nodes)
	} else {
		w = c17NewQWorldOn("hybrid", 1000, Q, nodes)
	}
	defer w.close()
	run.Case(kind+"-sequential-nodes", cs)
	type step struct {
		Node     int  `json:"node"`
		Before   int  `json:"usable_before"`
		Admitted bool `json:"admitted"`
	}
	var steps []step
	for i := 0; i < Q+3; i++ {
		node := (firstNode + i) % nodes
		var req func() error
		if kind == "code-quota" {
			req = func() error { _, err := w.createCodeOn(node, c17Target); return err }
		} else {
			c, err := w.createCodeOn(node, c17Target+9000+int64(i))
			if err != nil {
				run.Count(kind+"_prefill_refused", 1)
				return
			}
			code := c.Code
			req = func() error { _, err := w.activateOn(node, code, c17Listen); return err }
		}
		before := w.usable(cs)
		err := req()
		steps = append(steps, step{Node: node, Before: before, Admitted: err == nil})
		if err == nil && before >= Q {
			run.Violation("C17:"+kind+"|exceeded|sequential-across-nodes", map[string]any{"case": cs, "requests": steps, "usable_after": w.usable(cs), "quota": Q})
			break
		}
		if err == nil {
			run.Count(kind+"_sequential_nodes_admitted", 1)
		} else if before >= Q {
			run.Count(kind+"_sequential_nodes_refused_at_quota", 1)
		} else {
			run.Count(kind+"_sequential_nodes_refused_below_quota", 1) // not judged (no liveness claim)
		}
	}
	run.Eval(1)
	run.Distinct(fmt.Sprintf("%s|sequential-nodes|Q%d|n%d|first%d|usable%d", kind, Q, nodes, firstNode, w.usable(cs)))
}

// c17ClaimHeldTrial (code quota): the owner is at his quota; an activation of one of his
// codes is held right after it took the code's one-time claim; meanwhile the owner asks
// for one more code; then the held activation is made to fail (the write of the mapping
// record fails once) and is released, which gives the code back. Oracle at quiescence:
// usable (unexpired, unrevoked, unactivated) codes of the owner in the store <= quota.
func c17ClaimHeldTrial(run *vk.Run, Q int, backend string) {
	nodes := 1
	if backend == "hybrid" {
		nodes = 2
	}
	cs := c17QCase{Kind: "code-quota", Quota: Q, Prefill: Q, N: 1, Mode: "activation-claim-held", Nodes: 1, Backend: backend}
	w := c17NewQWorldOn(backend, Q, 1000, nodes)
	defer w.close()
	var codes []string
	for i := 0; i < Q; i++ {
		c, err := w.createCode(c17Target)
		if err != nil {
			run.Count("code-quota_prefill_refused", 1)
			return
		}
		codes = append(codes, c.Code)
	}
	run.Case("code-quota-claim-held", cs)
	var phase atomic.Int32 // 0 wait for the claim, 1 claim taken, 2 holder parked, 3 fault armed, 4 fault done
	parked := make(chan struct{})
	resume := make(chan struct{})
	var faultKey string
	w.g.SetHook(func(tier, op, key string) error {
		switch phase.Load() {
		case 0:
			if strings.HasPrefix(key, constants.KeyPrefixRuntimeConnectionCodeClaim) && c17IsWrite(op) {
				phase.Store(1) // this operation takes the claim
			}
		case 1:
			if phase.CompareAndSwap(1, 2) { // first operation after the claim: hold the activation here
				close(parked)
				select {
				case <-resume:
				case <-time.After(c17Watchdog):
				}
			}
		case 3:
			if c17IsWrite(op) && strings.HasPrefix(key, constants.KeyPrefixPortMapping+":") && phase.CompareAndSwap(3, 4) {
				faultKey = op + ":" + key
				return vk.ErrInjected
			}
		}
		return nil
	})
	actErr := make(chan error, 1)
	// the activating client's id falls into another lock stripe than the owner's, so the owner's
	// request is not serialised behind the suspended activation by the node-local quota lock
	const activator = c17Listen + 1
	go func() { _, err := w.activateOn(nodes-1, codes[0], activator); actErr <- err }()
	select {
	case <-parked:
	case err := <-actErr:
		w.g.SetHook(nil)
		run.Count("code-quota_claim_hold_not_reached", 1)
		_ = err
		return
	case <-time.After(c17Watchdog):
		w.g.SetHook(nil)
		run.Count("watchdog", 1)
		return
	}
	// the activation holds the claim and is suspended; the owner asks for one more code
	createDone := make(chan error, 1)
	go func() { _, err := w.createCode(c17Target); createDone <- err }()
	var createErr error
	createPending := false
	select {
	case createErr = <-createDone:
	case <-time.After(50 * time.Millisecond): // serialised behind the suspended activation: let that one go on
		createPending = true
		run.Count("code-quota_claim_held_create_blocked_behind_activation", 1)
	}
	phase.Store(3)
	close(resume)
	var aerr error
	select {
	case aerr = <-actErr:
	case <-time.After(c17Watchdog):
		w.g.SetHook(nil)
		run.Count("watchdog", 1)
		return
	}
	if createPending {
		select {
		case createErr = <-createDone:
		case <-time.After(c17Watchdog):
			w.g.SetHook(nil)
			run.Count("watchdog", 1)
			return
		}
	}
	w.g.SetHook(nil)
	usable := w.usable(cs)
	run.Eval(1)
	run.Count("code-quota_claim_held_trials", 1)
	if aerr != nil {
		run.Count("code-quota_claim_held_activation_failed", 1)
	}
	run.Distinct(fmt.Sprintf("code-quota|claim-held|%s|Q%d|create=%v|act=%v|usable%d", backend, Q, createErr == nil, aerr == nil, usable))
	if usable > Q {
		run.Violation("C17:code-quota|exceeded|code-issued-while-activation-claim-held", map[string]any{"case": cs, "create_admitted_while_claim_held": createErr == nil,
			"held_activation_error": fmt.Sprint(aerr), "fault_at": faultKey, "usable_codes_of_owner_in_store": usable, "quota": Q})
	}
}

// c17ReadFaultTrial: the client is exactly at its quota; one more request is made while
// the k-th storage READ of that request fails once (vk.ErrInjected). Oracle: a request
// that fails leaves the store byte-identical; for the code quota (whose count aborts on
// an unreadable record) the request is not admitted. Returns the number of reads seen.
func c17ReadFaultTrial(run *vk.Run, kind string, Q, k int) int {
	cs := c17QCase{Kind: kind, Quota: Q, Prefill: Q, N: 0, Mode: "read-fault", Nodes: 1, Need: k}
	var w *c17QWorld
	if kind == "code-quota" {
		w = c17NewQWorld(Q, 1000, 1)
	} else {
		w = c17NewQWorld(1000, Q, 1)
	}
	defer w.close()
	_, probes, ok := c17Setup(w, cs)
	if !ok {
		run.Count(kind+"_prefill_refused", 1)
		return 0
	}
	probe, stillFine := probes()
	if probe == nil {
		return 0
	}
	run.Case(kind+"-read-fault", cs)
	before := w.snapshot()
	usable0 := w.usable(cs)
	var reads atomic.Int64
	var injected atomic.Bool
	var faultAt string
	w.g.SetHook(func(tier, op, key string) error {
		if c17IsWrite(op) {
			return nil
		}
		if n := reads.Add(1) - 1; int(n) == k {
			injected.Store(true)
			faultAt = op + ":" + key
			return vk.ErrInjected
		}
		return nil
	})
	err := probe()
	w.g.SetHook(nil)
	after := w.snapshot()
	run.Eval(1)
	if injected.Load() {
		run.Count(kind+"_read_faults_injected", 1)
	}
	run.Distinct(fmt.Sprintf("%s|read-fault|Q%d|k%d|%v", kind, Q, k, err == nil))
	detail := map[string]any{"case": cs, "fault_at": faultAt, "usable_before": usable0, "usable_after": w.usable(cs), "quota": Q}
	if err == nil {
		if usable0 >= Q {
			if kind == "code-quota" {
				run.Violation("C17:code-quota|exceeded|admitted-at-full-quota-under-read-fault", detail)
			} else {
				// ActivateConnectionCode deliberately does not block on a failed quota query
				// (activation.go step 5) and the mapping listing skips unreadable records:
				// storage faults are outside this property's quantifier; recorded, not judged
				run.Count("mapping-quota_admitted_at_full_quota_under_read_fault", 1)
			}
		}
		return int(reads.Load())
	}
	detail["error"] = err.Error()
	if d := c17SnapDiff(before, after); len(d) > 0 || !stillFine() {
		if len(d) > 12 {
			d = d[:12]
		}
		detail["store_diff"] = d
		run.Violation("C17:"+kind+"|failed-request-changed-state|read-fault", detail)
	}
	return int(reads.Load())
}

// c17InterposeTrial runs ONE admission and serves a read-only request of the same client
// between its storage operations j-1 and j (storage-operation granularity, every j), then
// keeps admitting until refused. Returns the number of storage operations of the admission.
func c17InterposeTrial(run *vk.Run, kind string, Q, nodes, j int) int {
	cs := c17QCase{Kind: kind, Quota: Q, Prefill: Q - 1, N: 1, Mode: "interposed-read", Nodes: nodes, Need: j}
	var w *c17QWorld
	if kind == "code-quota" {
		w = c17NewQWorld(Q, 1000, nodes)
	} else {
		w = c17NewQWorld(1000, Q, nodes)
	}
	defer w.close()
	reqs, probes, ok := c17Setup(w, cs)
	if !ok {
		run.Count(kind+"_prefill_refused", 1)
		return 0
	}
	run.Case(kind+"-interposed", cs)
	var opn atomic.Int64
	var inside atomic.Bool
	var served atomic.Int32
	var blocked chan struct{}
	w.g.SetHook(func(tier, op, key string) error {
		if inside.Load() {
			return nil
		}
		if n := opn.Add(1) - 1; int(n) == j {
			// The reader runs on its own goroutine; it may legitimately block behind this very
			// admission (GenericRepository.Get shares reads through a singleflight group), in
			// which case the admission simply resumes (a scheduling decision, never a verdict).
			inside.Store(true)
			done := make(chan struct{})
			go func() { defer close(done); w.interposedRead(cs, nodes-1) }()
			select {
			case <-done:
				served.Add(1)
			case <-time.After(30 * time.Millisecond):
				blocked = done
			}
			inside.Store(false)
		}
		return nil
	})
	err := reqs[0]()
	w.g.SetHook(nil)
	if blocked != nil {
		select {
		case <-blocked:
		case <-time.After(c17Watchdog):
			run.Count("watchdog", 1)
			return int(opn.Load())
		}
		run.Count(kind+"_interposed_reader_blocked_behind_admission", 1)
	}
	ops := int(opn.Load())
	issued := 0
	if err == nil {
		issued++
	}
	for i := 0; i < Q+3; i++ {
		probe, _ := probes()
		if probe == nil || probe() != nil {
			break
		}
		issued++
	}
	svcCount := w.activeMappings(c17Listen)
	if kind == "code-quota" {
		svcCount = w.activeCodes(c17Target)
	}
	usable := w.usable(cs)
	run.Eval(1)
	if served.Load() > 0 {
		run.Count(kind+"_interposed_positions", 1)
	}
	run.Distinct(fmt.Sprintf("%s|interposed|nodes%d|Q%d|op%d/%d|usable%d", kind, nodes, Q, j, ops, usable))
	if usable > Q || svcCount > Q {
		run.Violation(c17Sig(cs, "exceeded|after-interposed-read"), map[string]any{"case": cs, "read_served_before_storage_op": j, "storage_ops_of_admission": ops,
			"issued_after_prefill": issued, "usable_in_store": usable, "service_count": svcCount, "quota": Q})
	}
	return ops
}

func c17HistClient(kind string) int64 {
	if kind == "code-quota" {
		return c17Target
	}
	return c17Listen
}

func c17Sig(cs c17QCase, what string) string {
	if cs.Nodes > 1 {
		return "C17:" + cs.Kind + "|" + what + "|cross-node"
	}
	return "C17:" + cs.Kind + "|" + what
}

// c17Judge applies the oracle to the state after a burst.
func c17Judge(run *vk.Run, w *c17QWorld, cs c17QCase, errs []error, inWindow int, sched []string, probes func() (func() error, func() bool)) {
	w.g.SetHook(nil)
	admitted, refused := 0, 0
	for _, e := range errs {
		if e == nil {
			admitted++
		} else {
			refused++
		}
	}
	active := w.active(cs)
	out := c17QOutcome{Case: cs, Admitted: admitted, Refused: refused, Active: active, InWindow: inWindow, Schedule: sched}
	pre := cs.Kind + "_"
	run.Eval(1)
	if inWindow >= 2 {
		run.Count(pre+"trials_2plus_in_window", 1)
	}
	run.Max(pre+"in_window_max", int64(inWindow))
	run.Max(pre+"max_over_quota", int64(active-cs.Quota))
	if refused > 0 {
		run.Count(pre+"refusals_seen", int64(refused))
	}
	run.Distinct(fmt.Sprintf("%s|%s%s|nodes%d|Q%d|P%d|N%d|K%d|adm%d|win%d", cs.Kind, cs.Mode, cs.Backend, cs.Nodes, cs.Quota, cs.Prefill, cs.N, cs.Need, admitted, inWindow))
	if cs.Nodes > 1 {
		run.Count(pre+"cross_node_trials", 1)
	}
	run.Sample(out)
	if active > cs.Quota {
		run.Violation(c17Sig(cs, "exceeded"), out)
	}
	// what is stored is exactly prefill + admitted (a refused request added nothing)
	if active > cs.Prefill+admitted {
		run.Violation(c17Sig(cs, "refused-left-state|count"), out)
	}
	if active < cs.Prefill+admitted {
		// an admitted entry that is not visible afterwards is a lost update of the index, not a
		// limit violation (properties C13/C14); recorded, not judged here
		run.Count(pre+"admitted_not_visible", 1)
	}
	// at (or above) the quota a sequential request is refused and changes nothing
	if active >= cs.Quota && probes != nil {
		probe, stillFine := probes()
		if probe == nil {
			return
		}
		before := w.snapshot()
		err := probe()
		after := w.snapshot()
		if err == nil {
			if active == cs.Quota && cs.Backend == "hybrid" && cs.Nodes > 1 {
				// After a CONCURRENT burst through two nodes with tiered storage, node 0 may count
				// from an index that lost one of the concurrent appends (list update across
				// tiers: properties C13/C14) and admit this request. The strictly sequential
				// multi-node case is judged by c17SequentialNodesTrial; here it is recorded only.
				if run.Counter(pre+"hybrid_probe_admitted_after_concurrent_cross_node_burst") == 0 {
					run.Observe(pre+"hybrid_probe_admitted_first", map[string]any{"outcome": out, "active_after_probe": w.active(cs),
						"service_count_node0": w.activeMappings(c17Listen), "usable_in_shared_store": w.usable(cs)})
				}
				run.Count(pre+"hybrid_probe_admitted_after_concurrent_cross_node_burst", 1)
				return
			}
			if active == cs.Quota {
				run.Violation(c17Sig(cs, "exceeded|sequential-at-quota"), map[string]any{"outcome": out, "active_after_probe": w.active(cs)})
			}
			return
		}
		run.Count(pre+"seq_refusals_checked", 1)
		if d := c17SnapDiff(before, after); len(d) > 0 || !stillFine() {
			if len(d) > 12 {
				d = d[:12]
			}
			run.Violation(c17Sig(cs, "refused-changed-state"), map[string]any{"outcome": out, "store_diff": d, "error": err.Error()})
		}
	}
}

func c17GID() int64 {
	var buf [64]byte
	b := buf[:runtime.Stack(buf[:], false)]
	b = b[len("goroutine "):]
	var id int64
	for _, ch := range b {
		if ch < '0' || ch > '9' {
			break
		}
		id = id*10 + int64(ch-'0')
	}
	return id
}

// c17StaggeredTrial: k >= 3 requests of ONE client arrive one after another, each while
// its predecessor is held inside the count-then-create section (at its first mutating
// storage operation, i.e. after it has counted): A inside, B arrives (queues behind A in a
// correctly serialised service), A leaves, B gets inside and is held, C arrives, B leaves,
// ... Occupancy is quota-2 so that two requests inside at once would both pass the count.
// The driver only decides when to start and release requests; "queued behind the
// predecessor" is inferred from no arrival within c17Stall (a scheduling decision).
func c17StaggeredTrial(run *vk.Run, kind string, Q, k int) {
	cs := c17QCase{Kind: kind, Quota: Q, Prefill: Q - 2, N: k, Mode: "staggered", Nodes: 1}
	var w *c17QWorld
	if kind == "code-quota" {
		w = c17NewQWorld(Q, 1000, 1)
	} else {
		w = c17NewQWorld(1000, Q, 1)
	}
	defer w.close()
	reqs, _, ok := c17Setup(w, cs)
	if !ok {
		run.Count(kind+"_prefill_refused", 1)
		return
	}
	run.Case(kind+"-staggered", cs)
	arrived := make([]chan struct{}, k)
	done := make([]chan struct{}, k)
	release := make([]chan struct{}, k)
	held := make([]atomic.Bool, k)
	errs := make([]error, k)
	for i := range arrived {
		arrived[i], done[i], release[i] = make(chan struct{}), make(chan struct{}), make(chan struct{})
	}
	var gids sync.Map
	w.g.SetHook(func(tier, op, key string) error {
		if !c17IsWrite(op) {
			return nil
		}
		v, ok := gids.Load(c17GID())
		if !ok {
			return nil
		}
		i := v.(int)
		if held[i].CompareAndSwap(false, true) {
			close(arrived[i])
			select {
			case <-release[i]:
			case <-time.After(c17Watchdog):
			}
		}
		return nil
	})
	start := func(i int) {
		go func() {
			gids.Store(c17GID(), i)
			errs[i] = reqs[i]()
			close(done[i])
		}()
	}
	// wait until request i is inside (held) or has returned; stall=true: give up after c17Stall
	wait := func(i int, stall bool) (state string) {
		var t <-chan time.Time
		if stall {
			t = time.After(c17Stall)
		} else {
			t = time.After(c17Watchdog)
		}
		select {
		case <-arrived[i]:
			return "inside"
		case <-done[i]:
			return "returned"
		case <-t:
			if stall {
				return "queued"
			}
			return "watchdog"
		}
	}
	abort := func() {
		for i := range release {
			select {
			case <-release[i]:
			default:
				close(release[i])
			}
		}
		run.Count("watchdog", 1)
	}
	start(0)
	if wait(0, false) == "watchdog" {
		abort()
		return
	}
	twoInside, lateWhileInside := 0, 0
	for i := 1; i < k; i++ {
		predInside := held[i-1].Load()
		select {
		case <-done[i-1]:
			predInside = false
		default:
		}
		start(i)
		st := wait(i, true)
		if predInside {
			lateWhileInside++
			if st == "inside" {
				twoInside++ // only possible if the section does not serialise this client's requests
			}
		}
		close(release[i-1])
		select {
		case <-done[i-1]:
		case <-time.After(c17Watchdog):
			abort()
			return
		}
		if wait(i, false) == "watchdog" {
			abort()
			return
		}
	}
	close(release[k-1])
	for i := 0; i < k; i++ {
		select {
		case <-done[i]:
		case <-time.After(c17Watchdog):
			abort()
			return
		}
	}
	w.g.SetHook(nil)
	admitted := 0
	for _, e := range errs {
		if e == nil {
			admitted++
		}
	}
	usable := w.usable(cs)
	run.Eval(1)
	run.Count(kind+"_staggered_arrivals_while_predecessor_inside", int64(lateWhileInside))
	if twoInside > 0 {
		run.Count(kind+"_staggered_two_inside_section", int64(twoInside))
	}
	run.Distinct(fmt.Sprintf("%s|staggered|Q%d|k%d|adm%d|two%d", kind, Q, k, admitted, twoInside))
	if usable > Q {
		run.Violation(c17Sig(cs, "exceeded|staggered-requests"), map[string]any{"case": cs, "admitted": admitted, "usable_in_store": usable, "quota": Q,
			"arrivals_while_predecessor_inside": lateWhileInside, "arrivals_that_got_inside_next_to_predecessor": twoInside})
	}
}

// c17HoldTrial: real goroutines, racers held at their first mutating storage operation.
func c17HoldTrial(run *vk.Run, cs c17QCase) {
	var w *c17QWorld
	if cs.Kind == "code-quota" {
		w = c17NewQWorldOn(cs.Backend, cs.Quota, 1000, cs.Nodes)
	} else {
		w = c17NewQWorldOn(cs.Backend, 1000, cs.Quota, cs.Nodes)
	}
	defer w.close()
	reqs, probes, ok := c17Setup(w, cs)
	if !ok {
		run.Count(cs.Kind+"_prefill_refused", 1)
		return
	}
	run.Case(cs.Kind, cs)
	gate := c17NewHookGate(cs.N, cs.Need)
	if cs.Mode == "hold" {
		w.g.SetHook(func(tier, op, key string) error {
			if c17IsWrite(op) {
				gate.enter()
			}
			return nil
		})
	}
	var spin c17Spin
	errs := make([]error, cs.N)
	var wg sync.WaitGroup
	for i := range reqs {
		wg.Add(1)
		go func(i int) {
			defer wg.Done()
			spin.wait()
			errs[i] = reqs[i]()
			gate.returned()
		}(i)
	}
	okBarrier := spin.release(cs.N)
	wg.Wait()
	if !okBarrier || gate.timedOut.Load() {
		run.Count("watchdog", 1)
		return
	}
	if gate.stallOpened.Load() {
		run.Count("gate_opened_by_stall", 1)
	}
	c17Judge(run, w, cs, errs, int(gate.atOpen.Load()), nil, probes)
}

// c17WindowOverlap derives, from a schedule trace, the largest number of racers that
// had certainly finished counting (were released into their first mutating operation)
// while none of them had yet been released into the operation that makes the new
// entry countable (recordOp on a key containing recordKey).
func c17WindowOverlap(trace []string, recordOp, recordKey string) int {
	type iv struct{ from, to int }
	ivs := map[string]*iv{}
	for i, e := range trace {
		at := strings.Index(e, "@")
		if at < 0 || !strings.HasPrefix(e, "r") {
			continue
		}
		th, pt := e[:at], e[at+1:]
		dot := strings.Index(pt, ".")
		col := strings.Index(pt, ":")
		if dot < 0 || col < dot {
			continue
		}
		op, key := pt[dot+1:col], pt[col+1:]
		v := ivs[th]
		if v == nil {
			v = &iv{from: -1, to: -1}
			ivs[th] = v
		}
		if c17IsWrite(op) && v.from < 0 {
			v.from = i
		}
		if op == recordOp && strings.Contains(key, recordKey) && v.to < 0 {
			v.to = i
		}
	}
	best := 0
	for i := range trace {
		n := 0
		for _, v := range ivs {
			if v.from >= 0 && v.from <= i && (v.to < 0 || i < v.to) {
				n++
			}
		}
		if n > best {
			best = n
		}
	}
	return best
}

func c17RecordPoint(cs c17QCase) (op, key string) {
	if cs.Kind == "code-quota" {
		// a code becomes countable once its id is in the target's index (the by-id copy is written before)
		return "AppendToList", constants.KeyPrefixIndexConnectionCodeByTarget
	}
	return "AppendToList", fmt.Sprintf("%s:%d", constants.KeyPrefixClientMappings, c17Listen)
}

// c17SchedScenario builds a world and registers the racers as scheduler threads.
func c17SchedScenario(run *vk.Run, cs c17QCase, s *vk.Sched) func(bool) {
	var w *c17QWorld
	if cs.Kind == "code-quota" {
		w = c17NewQWorld(cs.Quota, 1000, cs.Nodes)
	} else {
		w = c17NewQWorld(1000, cs.Quota, cs.Nodes)
	}
	reqs, probes, ok := c17Setup(w, cs)
	if !ok {
		w.close()
		return func(bool) { run.Count(cs.Kind+"_prefill_refused", 1) }
	}
	errs := make([]error, cs.N)
	w.g.SetHook(vk.SchedHook(s))
	for i := range reqs {
		i := i
		s.Go(fmt.Sprintf("r%d", i), func() { errs[i] = reqs[i]() })
	}
	if cs.Readers > 0 {
		// read-only requests of the same client (no quota lock) interleaved with the admissions
		for k := 0; k < cs.Readers; k++ {
			k := k
			s.Go(fmt.Sprintf("reader%d", k), func() { w.interposedRead(cs, k) })
		}
	}
	return func(okRun bool) {
		defer w.close()
		w.g.SetHook(nil)
		if !okRun {
			run.Count("watchdog", 1)
			return
		}
		tr := s.Trace()
		op, key := c17RecordPoint(cs)
		run.Distinct(cs.Kind + "|" + cs.Mode + "|" + fmt.Sprint(cs.Quota, cs.N, cs.Nodes) + "|" + s.Fingerprint())
		run.Count(cs.Kind+"_schedules", 1)
		if s.Stalls() > 0 {
			if run.Counter("sched_stalls") == 0 {
				run.Observe("first_stalled_schedule", map[string]any{"case": cs, "trace": tr})
			}
			run.Count("sched_stalls", int64(s.Stalls()))
		}
		c17Judge(run, w, cs, errs, c17WindowOverlap(tr, op, key), tr, probes)
	}
}

func c17QuotaMonitor(t *testing.T, kind, name string) {
	vk.Quiet()
	run := vk.Start(t, "C17", name)
	defer run.Finish()
	what := "CreateConnectionCode for one target client"
	if kind == "mapping-quota" {
		what = "ActivateConnectionCode of N distinct fresh codes for one listening client"
	}
	run.Rule(what + " with quota Q in {1,2,5}: fill to Q-1 (or Q-2), then N in {2,8,32} concurrent requests. mode hold: each request is held at its first mutating storage operation until K in {2..N} requests are there; " +
		"mode free: spin barrier only; mode sched: every storage operation is a gate of vk.Sched with a seeded random chooser (N in {2,8}); mode explore: N=2, all schedules with <=2 (thorough: 3) preemptions (capped by runs and by total scheduling steps); 1 in 5 trials places the racers on two service nodes sharing the store. " +
		"interposed-read: one admission with a lock-free read request of the same client (list codes / list mappings, node 0 or 1) served before its j-th storage operation, for every j, then admissions until refused; half of the sched trials add such a reader thread. " +
		"staggered: k in {3,4,5} requests of one client at occupancy Q-2, each started while its predecessor is held at its first mutating storage operation (inside the count-then-create section), predecessor released, successor gets inside and is held, next one starts ...; " +
		"object histories: the client's index built entry by entry (live entries, entries whose records are gone - deleted or expired by a 15 ms TTL - before/between/after the live ones, mappings whose status was rewritten with other spellings, mappings without expiry date, records that exist but cannot be loaded (undecodable JSON, wrong stored type), owner ids 1..2^63-1), then requests until refused; usable records are counted with the product's own validity predicates. " +
		"sequential-across-nodes: Q+3 strictly sequential requests served in turn by 2-3 nodes that each sit behind their own HybridStorage (local cache + one shared cache, default prefix routing); claim-held (code quota): owner at quota, an activation of one of his codes suspended after taking the claim, one more code requested, then the activation fails on the mapping write and is released; 1 in 10 hold trials uses the hybrid deployment. " +
		"index-writers (mapping quota): X's activation and the activation by Y of a code whose target is X, one suspended before each of its storage operations while the other completes, then X activates until refused; read-fault: at the quota, one more request whose k-th storage read fails once, every k. " +
		"The quota is judged on max(service count, usable records found in the store). distinct = (mode, Q, prefill, N, K, admitted, racers between count and record) and schedule fingerprints")
	pre := kind + "_"
	phase := map[string]float64{}
	t0 := time.Now()
	run.Floor(pre+"trials_2plus_in_window", 100)
	run.Floor(pre+"refusals_seen", 50)
	run.Floor(pre+"seq_refusals_checked", 50)
	run.Floor(pre+"interposed_positions", 20)
	run.Floor(pre+"read_faults_injected", 5)
	run.Floor(pre+"object_histories", 40)
	run.Floor(pre+"object_histories_with_unloadable_record", 10)
	if kind == "mapping-quota" {
		run.Floor("mapping-quota_object_history_permanent_entries", 10)
	}
	run.Floor(pre+"staggered_arrivals_while_predecessor_inside", 20)
	run.Floor(pre+"object_history_refused_at_quota", 20)
	run.Floor(pre+"sequential_nodes_refused_at_quota", 10)
	if kind == "code-quota" {
		run.Floor("code-quota_claim_held_activation_failed", 3)
	}
	if kind == "mapping-quota" {
		run.Floor("mapping-quota_index_writer_positions", 20)
	}
	r := run.Rand(kind)
	reps := run.Pick(200, 2000)
	if kind == "mapping-quota" {
		reps = run.Pick(120, 1200)
	}
	for _, Q := range []int{1, 2, 5} {
		for _, N := range []int{2, 8, 32} {
			for rep := 0; rep < reps && run.Violations() < 20; rep++ {
				cs := c17QCase{Kind: kind, Quota: Q, N: N, Mode: "hold", Prefill: Q - 1, Nodes: 1}
				if rep%5 == 4 {
					cs.Nodes = 2 // racers alternate between two service instances on the shared store
					if rep%10 == 9 {
						cs.Backend = "hybrid" // ... each behind its own tiered storage
					}
				}
				if Q >= 2 && rep%4 == 3 {
					cs.Prefill = Q - 2
				}
				switch rep % 3 {
				case 0:
					cs.Need = N
				case 1:
					cs.Need = 2
				default:
					cs.Need = 2 + r.Intn(N-1)
				}
				if N <= 8 && rep%10 == 9 {
					cs.Mode, cs.Need = "free", 0
				}
				c17HoldTrial(run, cs)
			}
		}
	}
	mark := func(name string) {
		phase[name] = time.Since(t0).Seconds()
		t0 = time.Now()
		run.Observe("phase_wall_s", phase)
	}
	mark("hold+free")
	// a read-only request of the same client served at every storage-operation boundary of one admission
	for _, Q := range []int{1, 2} {
		for _, nodes := range []int{1, 2} {
			ops := c17InterposeTrial(run, kind, Q, nodes, -1)
			for j := 0; j < ops && j < 60 && run.Violations() < 20; j++ {
				c17InterposeTrial(run, kind, Q, nodes, j)
			}
		}
	}
	if kind == "mapping-quota" {
		// two writers of one client's index under different quota locks, one suspended at every storage operation
		for _, Q := range []int{3, 5} {
			for _, outer := range []string{"Y", "X"} {
				ops := c17IndexWritersTrial(run, Q, outer, -1)
				for j := 0; j < ops && j < 60 && run.Violations() < 20; j++ {
					c17IndexWritersTrial(run, Q, outer, j)
				}
			}
		}
	}
	// k >= 3 staggered requests of one client, each arriving while its predecessor is held inside the section
	for rep := 0; rep < run.Pick(3, 40); rep++ {
		for _, Q := range []int{2, 3} {
			for _, k := range []int{3, 4, 5} {
				if run.Violations() < 20 {
					c17StaggeredTrial(run, kind, Q, k)
				}
			}
		}
	}
	// object histories: stale index references before/between/after live entries, status spellings, edge-case owner ids
	for _, Q := range []int{1, 2, 3} {
		for _, live := range []int{Q - 1, Q} {
			for length := live + 1; length <= live+2 && length <= 5; length++ {
				for _, pat := range c17Patterns(length, live, []string{"S"}) {
					if run.Violations() < 20 {
						c17ObjectHistoryTrial(run, kind, Q, c17HistClient(kind), pat, false)
					}
				}
			}
		}
	}
	if kind == "code-quota" {
		for _, pat := range [][]string{{"S", "L"}, {"S", "L", "L"}, {"L", "S", "L"}, {"S", "S", "L", "L", "L"}} {
			live := strings.Count(strings.Join(pat, ""), "L")
			c17ObjectHistoryTrial(run, kind, live, c17HistClient(kind), pat, true) // records expire by their own (15 ms) TTL
		}
	} else {
		for _, Q := range []int{1, 2, 3} {
			for _, sp := range []string{"P", "Active", "ACTIVE", " active", "active ", "inactive", ""} {
				pat := make([]string, Q)
				for i := range pat {
					pat[i] = "L"
				}
				for pos := 0; pos < Q; pos++ { // one, then all, entries carry the spelling
					p1 := append([]string(nil), pat...)
					p1[pos] = sp
					c17ObjectHistoryTrial(run, kind, Q, c17HistClient(kind), p1, false)
				}
				all := make([]string, Q)
				for i := range all {
					all[i] = sp
				}
				c17ObjectHistoryTrial(run, kind, Q, c17HistClient(kind), all, false)
			}
		}
	}
	// index entries whose record exists but cannot be loaded, before / between / after live entries
	for _, Q := range []int{1, 2, 3} {
		for _, live := range []int{Q - 1, Q} {
			for _, bad := range []string{"X", "T"} {
				for _, pat := range c17Patterns(live+1, live, []string{bad}) {
					if run.Violations() < 20 {
						c17ObjectHistoryTrial(run, kind, Q, c17HistClient(kind), pat, false)
						run.Count(pre+"object_histories_with_unloadable_record", 1)
					}
				}
			}
		}
	}
	for _, id := range []int64{1, 10000000, 99999999, 1 << 31, 1<<53 + 1, 1<<63 - 1} {
		c17ObjectHistoryTrial(run, kind, 2, id, []string{"L", "S"}, false)
	}
	// clustered deployment (per-node tiered storage over one shared cache): strictly sequential requests through the nodes in turn
	for _, Q := range []int{1, 2, 3} {
		for _, nodes := range []int{2, 3} {
			for first := 0; first < nodes; first++ {
				c17SequentialNodesTrial(run, kind, Q, nodes, first)
			}
		}
	}
	if kind == "code-quota" {
		for _, Q := range []int{1, 2, 3} {
			for _, backend := range []string{"memory", "hybrid"} {
				c17ClaimHeldTrial(run, Q, backend)
			}
		}
	}
	// at the quota, one more request whose k-th storage read fails once, every k
	for _, Q := range []int{1, 2, 3} {
		reads := c17ReadFaultTrial(run, kind, Q, -1)
		for k := 0; k < reads && k < 40 && run.Violations() < 20; k++ {
			c17ReadFaultTrial(run, kind, Q, k)
		}
	}
	mark("interposed")
	// seeded random schedules at storage-operation granularity
	schedReps := run.Pick(25, 400)
	stallBudget := int64(run.Pick(50, 1500))
	for _, Q := range []int{1, 2, 5} {
		for _, N := range []int{2, 8} {
			nrep := schedReps
			if kind == "mapping-quota" && N > 2 {
				// GenericRepository.Get wraps the storage read in a singleflight group: a racer that
				// asks for a mapping another (parked) racer is fetching blocks off-gate, which the
				// scheduler only resolves by its 150 ms stall rule. Keep these schedules few.
				nrep = run.Pick(3, 40)
			}
			for rep := 0; rep < nrep && run.Violations() < 20; rep++ {
				// every racer that blocks off-gate (singleflight, or a lock around count+create in a
				// repaired tree) costs the scheduler its 150 ms stall rule: the number of such
				// stalls, not time, bounds this phase
				if run.Counter("sched_stalls") >= stallBudget {
					run.Count("sched_trials_skipped_stall_budget", 1)
					continue
				}
				cs := c17QCase{Kind: kind, Quota: Q, N: N, Mode: "sched", Prefill: Q - 1, Nodes: 1 + (rep%4)/3, Readers: rep % 2}
				s := vk.NewSched(vk.RandomChooser{R: rand.New(rand.NewSource(r.Int63()))})
				after := c17SchedScenario(run, cs, s)
				okRun := s.Run(20000)
				s.Stop()
				after(okRun)
			}
		}
	}
	mark("sched")
	// bounded-preemption enumeration, two racers
	exploreRuns := run.Pick(100, 3000)
	for _, Q := range []int{1, 2} {
		if run.Violations() >= 20 {
			break
		}
		cs := c17QCase{Kind: kind, Quota: Q, N: 2, Mode: "explore", Prefill: Q - 1, Nodes: Q} // Q=2: the two racers sit on different nodes
		// logical budget: total scheduling decisions of this enumeration (a repaired tree that
		// retries on a storage lock makes schedules long; time is never the bound)
		stepBudget, stepsUsed := run.Pick(3000, 150000), 0
		st := vk.Explore(run.Pick(2, 3), exploreRuns, 400, func(s *vk.Sched) func(bool) {
			if stepsUsed >= stepBudget {
				return func(bool) { run.Count("explore_runs_skipped_step_budget", 1) }
			}
			after := c17SchedScenario(run, cs, s)
			return func(ok bool) {
				stepsUsed += len(s.Trace())
				after(ok)
			}
		})
		run.Count(pre+"explore_schedules", int64(st.Distinct))
		if st.Complete && stepsUsed < stepBudget {
			run.Count(pre+"explore_complete", 1)
		}
	}
	mark("explore")
}

func TestVerifC17CodeQuota(t *testing.T)    { c17QuotaMonitor(t, "code-quota", "code-quota") }
func TestVerifC17MappingQuota(t *testing.T) { c17QuotaMonitor(t, "mapping-quota", "mapping-quota") }
