//go:build verif && verif_c04

package server

import (
	"bytes"
	"context"
	"encoding/json"
	"fmt"
	"net"
	"os"
	"runtime"
	"sort"
	"strconv"
	"strings"
	"sync"
	"sync/atomic"
	"testing"
	"time"

	"tunnox-core/internal/cloud/models"
	"tunnox-core/internal/cloud/repos"
	"tunnox-core/internal/cloud/services"
	"tunnox-core/internal/constants"
	"tunnox-core/internal/core/storage"
	"tunnox-core/internal/core/storage/memory"
	"tunnox-core/internal/packet"
	"tunnox-core/internal/protocol/session"
	"tunnox-core/internal/stream"
	vk "tunnox-core/internal/verifkit"
)

// C04 — tunnel data reaches only connections authorised for that mapping.
//
// Matrix monitor over the real open-tunnel dispatcher (SessionManager.handleTunnelOpen
// + ServerTunnelHandler + ConnectionCodeService) on the mini-server. One fresh server
// per cell; the cell fixes
//   mapping kind   keyed (created through CloudControl.CreatePortMapping with a secret)
//                  | conncode (connection code create+activate; such mappings have an
//                  empty secret) | serverlisten (ListenClientID 0: the server itself is
//                  the listening side, UDP-ingress / HTTP-domain style, with a secret;
//                  the victim's source bridge is made by SessionManager.StartServerTunnel;
//                  there is no "listen" identity, nobody but the target is a party)
//   tunnel state   none | waiting (victim source bridge waits locally) | served (victim
//                  source+target bridged) | remote (victim bridge waits on another node,
//                  requester is forwarded over the real cross-node TCP link) | racing
//                  (victim source open and requester open issued concurrently)
//   mapping state  active | revoked | revoked-reactivated (revoked, then status set back to
//                  active) | expired-1s | expired-1m | expired-1h (stored ExpiresAt that far
//                  in the past) | inactive | missing  (reached through the real
//                  services AFTER the victim's tunnel was set up)
//   identity       unauth | unauth-p1 (phase-1 of the handshake claiming the listen
//                  client's id, never answered) | listen | target | other
//   credential     id | id+secret | id+wrong | resume (garbage token) | none
// A "requester" connection then sends TunnelOpen{tunnel id the victim uses}. Observed:
// the TunnelOpenAck, whether a bridge of the SessionManager holds the requester's
// connection as source/target (exported accessors), and a data probe (each victim end
// writes a unique marker; does the requester's transport receive one? does a victim
// receive the marker the requester writes?).
//
// Oracle (the statement): entitled <=> authenticated AND mapping active AND
// ((id only AND identity=listen) OR (right secret AND identity in {listen,target})).
// not entitled AND (ack.success OR attached OR marker leaked/injected)  => violation
// not entitled AND no failure acknowledgement                          => violation
// Entitled cells are observations only (and feed the non-vacuity floors).

type c04Cell struct {
	Kind     string `json:"kind"`
	Tunnel   string `json:"tunnel"`
	MapState string `json:"map_state"`
	Identity string `json:"identity"`
	Cred     string `json:"cred"`
	// NoActivity: skip the intervening legitimate activity (racing draws only)
	NoActivity bool `json:"no_activity,omitempty"`
	// Foreign: the requester's credential is valid for ANOTHER mapping A, while the tunnel
	// id it presents belongs to the victim's mapping B. "disjoint": A's parties are not
	// parties of B; "shared-listen": A and B have the same listen client, different targets.
	// Identities are then listenA / targetA.
	Foreign string `json:"foreign,omitempty"`
	// PrimerSecret: the victims' own opens carry the mapping's secret (raw-JSON family)
	PrimerSecret bool `json:"primer_secret,omitempty"`
	// RoutingTTLms: waiting-tunnel routing TTL of both nodes (0 = production 30 s)
	RoutingTTLms int `json:"routing_ttl_ms,omitempty"`
	// Zone: name of the fixed zone time.Local was set to for this run (zone family)
	Zone string `json:"zone,omitempty"`
}

func (c c04Cell) key() string {
	k := c.Kind + "|" + c.Tunnel + "|" + c.MapState + "|" + c.Identity + "|" + c.Cred
	if c.NoActivity {
		k += "|quiet"
	}
	if c.Foreign != "" {
		k += "|foreign=" + c.Foreign
	}
	if c.Zone != "" {
		k += "|zone=" + c.Zone
	}
	return k
}

var (
	c04Kinds      = []string{"keyed", "conncode", "serverlisten"}
	c04Tunnels    = []string{"none", "waiting", "served"}
	c04MapStates  = []string{"active", "revoked", "revoked-reactivated", "expired-1s", "expired-1m", "expired-1h", "inactive", "missing"}
	c04Identities = []string{"unauth", "unauth-p1", "listen", "target", "other"}
	c04Creds      = []string{"id", "id+secret", "id+wrong", "resume", "none",
		// near misses derived from the right secret: only the exact secret is "the mapping's secret"
		"id+prefix1", "id+prefix-half", "id+prefix-allbutlast", "id+secret+suffix", "id+caseflip", "id+onechar", "id+padded"}

	// how far in the past the stored ExpiresAt lies (a mapping that expired a second ago is expired)
	c04ExpiryOffsets = map[string]time.Duration{"expired-1s": time.Second, "expired-1m": time.Minute, "expired-1h": time.Hour}
)

// c04StatusValues: mapping-state names -> stored Status value; only "active" may admit
var c04StatusValues = map[string]string{
	"status-error": string(models.MappingStatusError), "status-empty": "", "status-disabled": "disabled",
	"status-paused": "paused", "status-Active-capitalised": "Active",
}

const (
	c04Rereads      = 50 // bound of every re-read barrier: a count of reads, never a duration
	c04MaxSetupFail = 12 // a run that cannot establish this many cells stops (inconclusive) instead of crawling
)

// c04Policy is the reference policy of the statement. ambiguous: the statement does not
// decide the cell (mapping without a secret, target client presenting the mapping id:
// "presenting the mapping's secret" is vacuous) — such cells get no verdict.
func c04Policy(c c04Cell) (entitled bool, why string, ambiguous bool) {
	if c.Foreign != "" {
		// entitled only to the TUNNEL's mapping: a party of mapping A alone has no right to
		// mapping B's tunnel, whatever (valid) credential for A it presents. The listen client
		// that A and B share is a party of B but presents A's id/secret: not decided here.
		if c.Foreign == "shared-listen" && c.Identity == "listenA" {
			return false, "tunnel-of-another-mapping", true
		}
		return false, "tunnel-of-another-mapping", false
	}
	if strings.HasPrefix(c.Cred, "raw:") {
		// raw JSON payloads: what the bytes say decides, never what an earlier request said
		switch c.Cred {
		case "raw:secret-absent", "raw:secret-empty", "raw:secret-null":
			c.Cred = "id"
		default:
			c.Cred = "none"
		}
	}
	switch c.Identity {
	case "listen", "target", "other":
	default:
		return false, "unauthenticated", false
	}
	if c.MapState != "active" {
		return false, "mapping-not-valid", false
	}
	switch c.Cred {
	case "none":
		return false, "no-credential", false
	case "resume":
		return false, "garbage-resume-token", false
	case "id+wrong", "id+prefix1", "id+prefix-half", "id+prefix-allbutlast", "id+secret+suffix", "id+caseflip", "id+onechar", "id+padded":
		return false, "wrong-secret", false
	case "id":
		switch c.Identity {
		case "listen":
			return true, "", false
		case "target":
			if c.Kind == "conncode" {
				return false, "target-without-secret", true
			}
			return false, "target-without-secret", false
		}
		return false, "not-a-party", false
	case "id+secret":
		if c.Identity == "listen" || c.Identity == "target" {
			return true, "", false
		}
		return false, "not-a-party", false
	}
	return false, "unknown-cred", false
}

// ---------------------------------------------------------------------------------

type c04End struct {
	c    *miniClient
	node *miniNode
	role string
	rx   []byte // every raw byte the server wrote to this connection
	mark string
	ack  *packet.TunnelOpenAckResponse
	err  string
}

func (e *c04End) drain() {
	if e == nil || e.c == nil {
		return
	}
	e.rx = append(e.rx, e.c.DrainRaw()...)
}

func (e *c04End) has(marker string) bool {
	return e != nil && marker != "" && bytes.Contains(e.rx, []byte(marker))
}

type c04World struct {
	t       *testing.T
	run     *vk.Run
	cell    c04Cell
	n       *miniNode // node the requester talks to
	nb      *miniNode // node holding the victim's bridge (== n unless remote)
	cleanup []func()
	L, T, U *miniClient
	mapID   string
	secret  string
	tunnel  string
	vL, vT  *c04End
	vTFirst bool
	wantExp time.Time  // the ExpiresAt written for an expired-* cell
	oldExp  *time.Time // ExpiresAt as read back before that write
	// foreign family: mapping A and its parties
	LA, TA          *miniClient
	mapAID, secretA string
	rq              *c04End
	seq             int
	mu              sync.Mutex
	trace           []string
	jitter          [2]time.Duration // racing: delays of the victim / the requester
}

func (w *c04World) logf(f string, a ...any) {
	w.mu.Lock()
	w.trace = append(w.trace, fmt.Sprintf(f, a...))
	w.mu.Unlock()
}

func (w *c04World) close() {
	for i := len(w.cleanup) - 1; i >= 0; i-- {
		w.cleanup[i]()
	}
	if w.nb != nil && w.nb != w.n {
		w.nb.Close()
	}
	if w.n != nil {
		w.n.Close()
	}
}

// c04FreePort finds a free loopback port for the (fixed-port) CrossNodeListener.
func c04FreePort() int {
	l, err := net.Listen("tcp", "127.0.0.1:0")
	if err != nil {
		return 0
	}
	p := l.Addr().(*net.TCPAddr).Port
	l.Close()
	return p
}

func c04NewWorld(t *testing.T, run *vk.Run, cell c04Cell, idx int) (*c04World, error) {
	w := &c04World{t: t, run: run, cell: cell}
	if cell.Tunnel == "remote" {
		bg, cancel := context.WithCancel(context.Background())
		w.cleanup = append(w.cleanup, cancel)
		store := storage.NewMemoryStorage(bg)
		rttl := time.Duration(cell.RoutingTTLms) * time.Millisecond // 0 = production value (30 s)
		w.n = newMiniNode(t, miniOpts{NodeID: "node-a", Store: store, NoCommands: true, RoutingTTL: rttl})
		w.nb = newMiniNode(t, miniOpts{NodeID: "node-b", Store: store, NoCommands: true, RoutingTTL: rttl})
		var started bool
		for try := 0; try < 8 && !started; try++ {
			port := c04FreePort()
			if port == 0 {
				continue
			}
			l := session.NewCrossNodeListener(w.nb.SM, port)
			if err := l.Start(w.nb.ctx); err != nil {
				continue
			}
			w.nb.SM.SetCrossNodeListener(l)
			w.cleanup = append(w.cleanup, func() { l.Stop() })
			if err := w.nb.Routing.RegisterNodeAddress("node-b", fmt.Sprintf("127.0.0.1:%d", port)); err != nil {
				return w, fmt.Errorf("register node address: %v", err)
			}
			started = true
		}
		if !started {
			return w, fmt.Errorf("cross-node listener did not start")
		}
		mgr := session.NewTunnelConnectionManager(w.n.Routing.GetNodeAddress, session.DefaultTunnelConnectionManagerConfig())
		w.n.SM.SetTunnelConnectionManager(mgr)
		w.cleanup = append(w.cleanup, mgr.Close)
	} else {
		w.n = newMiniNode(t, miniOpts{NoCommands: true})
		w.nb = w.n
	}
	return w, w.populate(idx)
}

// populate registers the three clients and creates the cell's mapping.
func (w *c04World) populate(idx int) error {
	run, cell := w.run, w.cell
	w.L, w.T, w.U = w.n.NewClient(""), w.n.NewClient(""), w.n.NewClient("")
	w.tunnel = fmt.Sprintf("tcp-tunnel-%d-%d", 1700000000000000000+int64(idx), 18080)

	switch cell.Kind {
	case "keyed":
		exp := time.Now().Add(time.Hour)
		w.secret = fmt.Sprintf("mapsecret-%08x", run.Rand("secret").Int63()+int64(idx))
		m, err := w.n.CC.CreatePortMapping(&models.PortMapping{
			ListenClientID: w.L.ClientID, TargetClientID: w.T.ClientID,
			Protocol: models.ProtocolTCP, SourcePort: 18080, TargetHost: "127.0.0.1", TargetPort: 8080,
			ListenAddress: "0.0.0.0:18080", TargetAddress: "tcp://127.0.0.1:8080",
			SecretKey: w.secret, Status: models.MappingStatusActive, ExpiresAt: &exp,
			Type: models.MappingTypeAnonymous,
		})
		if err != nil {
			return fmt.Errorf("create mapping: %v", err)
		}
		w.mapID = m.ID
	case "serverlisten":
		exp := time.Now().Add(time.Hour)
		w.secret = fmt.Sprintf("srvsecret-%08x", run.Rand("secret").Int63()+int64(idx))
		m, err := w.n.CC.CreatePortMapping(&models.PortMapping{
			ListenClientID: 0, TargetClientID: w.T.ClientID,
			Protocol: models.ProtocolUDP, SourcePort: 15353, TargetHost: "127.0.0.1", TargetPort: 5353,
			SecretKey: w.secret, Status: models.MappingStatusActive, ExpiresAt: &exp,
			Type: models.MappingTypeRegistered, UserID: "verif-user",
		})
		if err != nil {
			return fmt.Errorf("create mapping: %v", err)
		}
		w.mapID = m.ID
	case "conncode":
		code, err := w.n.CCS.CreateConnectionCode(&services.CreateConnectionCodeRequest{
			TargetClientID: w.T.ClientID, TargetAddress: "tcp://127.0.0.1:8080", CreatedBy: "verif",
		})
		if err != nil {
			return fmt.Errorf("create code: %v", err)
		}
		m, err := w.n.CCS.ActivateConnectionCode(&services.ActivateConnectionCodeRequest{
			Code: code.Code, ListenClientID: w.L.ClientID, ListenAddress: "0.0.0.0:18080",
		})
		if err != nil {
			return fmt.Errorf("activate code: %v", err)
		}
		w.mapID = m.ID
		w.secret = m.SecretKey // empty on the current tree
	}
	if cell.Foreign != "" {
		w.TA = w.n.NewClient("")
		w.LA = w.L
		if cell.Foreign == "disjoint" {
			w.LA = w.n.NewClient("")
		}
		exp := time.Now().Add(time.Hour)
		w.secretA = fmt.Sprintf("mapsecretA-%08x", run.Rand("secretA").Int63()+int64(idx))
		m, err := w.n.CC.CreatePortMapping(&models.PortMapping{
			ListenClientID: w.LA.ClientID, TargetClientID: w.TA.ClientID,
			Protocol: models.ProtocolTCP, SourcePort: 18081, TargetHost: "127.0.0.1", TargetPort: 8081,
			ListenAddress: "0.0.0.0:18081", TargetAddress: "tcp://127.0.0.1:8081",
			SecretKey: w.secretA, Status: models.MappingStatusActive, ExpiresAt: &exp,
			Type: models.MappingTypeAnonymous,
		})
		if err != nil {
			return fmt.Errorf("create mapping A: %v", err)
		}
		w.mapAID = m.ID
	}
	return nil
}

// rawPayload builds the TunnelOpen body byte by byte for the raw:* credentials (members
// absent / empty / null), which marshalling packet.TunnelOpenRequest can never produce.
func (w *c04World) rawPayload() []byte {
	q := func(s string) string { b, _ := json.Marshal(s); return string(b) }
	switch w.cell.Cred {
	case "raw:secret-absent":
		return []byte(`{"mapping_id":` + q(w.mapID) + `,"tunnel_id":` + q(w.tunnel) + `}`)
	case "raw:secret-empty":
		return []byte(`{"mapping_id":` + q(w.mapID) + `,"tunnel_id":` + q(w.tunnel) + `,"secret_key":""}`)
	case "raw:secret-null":
		return []byte(`{"mapping_id":` + q(w.mapID) + `,"tunnel_id":` + q(w.tunnel) + `,"secret_key":null}`)
	case "raw:empty-object":
		return []byte(`{}`)
	case "raw:no-payload":
		return nil
	case "raw:tunnel-only":
		return []byte(`{"tunnel_id":` + q(w.tunnel) + `}`)
	case "raw:all-null":
		return []byte(`{"mapping_id":null,"tunnel_id":null,"secret_key":null}`)
	}
	return []byte(`{}`)
}

func (w *c04World) openRaw(e *c04End, tunnelID string, payload []byte) {
	e.drain()
	from := len(e.rx)
	err := e.c.Send(&packet.TransferPacket{PacketType: packet.TunnelOpen, TunnelID: tunnelID, Payload: payload})
	if err != nil {
		e.err = err.Error()
	}
	e.drain()
	e.ack = c04ParseAck(e.node.ctx, e.rx[from:])
	w.logf("raw TunnelOpen payload %q", string(payload))
}

// open sends a TunnelOpen on e's connection and parses the acknowledgement out of the
// raw bytes the server wrote (nothing the server writes is discarded).
func (w *c04World) open(e *c04End, req *packet.TunnelOpenRequest) {
	e.drain()
	from := len(e.rx)
	b, _ := json.Marshal(req)
	err := e.c.Send(&packet.TransferPacket{PacketType: packet.TunnelOpen, TunnelID: req.TunnelID, Payload: b})
	if err != nil {
		e.err = err.Error()
	}
	e.drain()
	e.ack = c04ParseAck(e.node.ctx, e.rx[from:])
}

func c04ParseAck(ctx context.Context, raw []byte) *packet.TunnelOpenAckResponse {
	if len(raw) == 0 {
		return nil
	}
	sp := stream.NewStreamProcessor(bytes.NewReader(raw), &bytes.Buffer{}, ctx)
	defer sp.Close()
	for i := 0; i < 4; i++ {
		p, _, err := sp.ReadPacket()
		if err != nil || p == nil {
			return nil
		}
		if p.PacketType&0x3F == packet.TunnelOpenAck {
			var a packet.TunnelOpenAckResponse
			if json.Unmarshal(p.Payload, &a) != nil {
				return nil
			}
			return &a
		}
	}
	return nil
}

func (w *c04World) newEnd(node *miniNode, role string, id int64, secret string) (*c04End, error) {
	c, err := node.Connect("")
	if err != nil {
		return nil, err
	}
	e := &c04End{c: c, node: node, role: role}
	if id != 0 {
		if ok, err := c.Login(id, secret, "tunnel"); !ok {
			return e, fmt.Errorf("%s login: %v", role, err)
		}
	}
	w.seq++
	e.mark = fmt.Sprintf("<<C04-%s-%s-%d>>", role, w.tunnel, w.seq)
	return e, nil
}

func (w *c04World) victimListenOpen() error {
	if err := w.victimListenPrepare(); err != nil {
		return err
	}
	w.victimListenSend()
	return nil
}

func (w *c04World) victimListenPrepare() error {
	if w.cell.Kind == "serverlisten" {
		// the server's own ingress is the source: one end of a pipe handed to StartServerTunnel
		addr := fmt.Sprintf("10.250.%d.%d:15353", (miniAddrSeq.Add(1)>>8)&255, miniAddrSeq.Load()&255)
		sc, hc := vk.BufPipe(addr, "127.0.0.1:15353")
		w.cleanup = append(w.cleanup, func() { hc.Close() })
		w.seq++
		w.vL = &c04End{c: &miniClient{n: w.nb, hc: hc, sc: sc, ConnID: "server-ingress-" + addr}, node: w.nb, role: "victimL",
			mark: fmt.Sprintf("<<C04-victimL-srv-%s-%d>>", addr, w.seq)}
		return nil
	}
	e, err := w.newEnd(w.nb, "victimL", w.L.ClientID, w.L.Secret)
	if err != nil {
		return err
	}
	w.vL = e
	return nil
}

func (w *c04World) victimListenSend() {
	e := w.vL
	if w.cell.Kind == "serverlisten" {
		id, err := w.nb.SM.StartServerTunnel(w.mapID, e.c.sc)
		if err != nil {
			e.err = err.Error()
			e.ack = &packet.TunnelOpenAckResponse{Success: false, Error: err.Error()}
		} else {
			w.tunnel = id // server-chosen id: "server-udp-<mapping>-<nanos>", what the requester presents
			e.ack = &packet.TunnelOpenAckResponse{TunnelID: id, Success: true}
		}
		w.logf("server ingress tunnel started: id=%s err=%q", id, e.err)
		return
	}
	vreq := &packet.TunnelOpenRequest{MappingID: w.mapID, TunnelID: w.tunnel}
	if w.cell.PrimerSecret {
		vreq.SecretKey = w.secret
	}
	w.open(e, vreq)
	w.logf("victimL open (secret presented: %v): ack=%s err=%q", w.cell.PrimerSecret, c04AckStr(e.ack), e.err)
}

func (w *c04World) victimTargetOpen() error {
	e, err := w.newEnd(w.nb, "victimT", w.T.ClientID, w.T.Secret)
	if err != nil {
		return err
	}
	w.vT = e
	// the bridge's copy loops serve the first target only; a later one is attached but idle
	w.vTFirst = true
	if b := c04BridgeOf(w.nb, w.vL); b != nil && b.GetTargetConnectionID() != "" {
		w.vTFirst = false
	}
	if w.cell.Tunnel == "remote" && c04Ok(w.rq) {
		w.vTFirst = false
	}
	w.open(e, &packet.TunnelOpenRequest{MappingID: w.mapID, TunnelID: w.tunnel, SecretKey: w.secret})
	w.logf("victimT open: ack=%s err=%q", c04AckStr(e.ack), e.err)
	return nil
}

func c04AckStr(a *packet.TunnelOpenAckResponse) string {
	if a == nil {
		return "none"
	}
	if a.Success {
		return "success"
	}
	return "failure(" + a.Error + ")"
}

func c04Ok(e *c04End) bool { return e != nil && e.ack != nil && e.ack.Success }

// setMapState drives the mapping into the cell's state through the real services.
func (w *c04World) setMapState() error {
	switch w.cell.MapState {
	case "active":
		return nil
	case "revoked":
		if w.cell.Kind == "serverlisten" {
			return w.n.CCS.RevokeMapping(w.mapID, w.T.ClientID, "verif")
		}
		return w.n.CCS.RevokeMapping(w.mapID, w.L.ClientID, "verif")
	case "revoked-reactivated":
		// revoked by a party, afterwards the status field is set back to active (what the
		// management API's status update does): still a revoked mapping
		if err := w.n.CCS.RevokeMapping(w.mapID, w.T.ClientID, "verif"); err != nil {
			return err
		}
		// the status update is a read-modify-write; its read must not be handed the
		// pre-revocation value by the repository's singleflight (see the barrier in runCell)
		for try := 0; try < c04Rereads; try++ {
			if m, err := w.n.CC.GetPortMapping(w.mapID); err == nil && m.IsRevoked { // stored flag
				break
			}
			w.run.Count("map_state_reread", 1)
			time.Sleep(200 * time.Microsecond) // pause between re-reads; the bound is the count
		}
		return w.n.CC.UpdatePortMappingStatus(w.mapID, models.MappingStatusActive)
	case "expired-1s", "expired-1m", "expired-1h":
		m, err := w.n.CC.GetPortMapping(w.mapID)
		if err != nil {
			return err
		}
		past := time.Now().Add(-c04ExpiryOffsets[w.cell.MapState]).Round(0)
		w.oldExp = m.ExpiresAt
		m.ExpiresAt = &past
		w.wantExp = past
		return w.n.CC.UpdatePortMapping(m)
	case "inactive":
		return w.n.CC.UpdatePortMappingStatus(w.mapID, models.MappingStatusInactive)
	case "missing":
		return w.n.CC.DeletePortMapping(w.mapID)
	}
	if st, ok := c04StatusValues[w.cell.MapState]; ok {
		// any status other than "active", written the way the management API's update does
		m, err := w.n.CC.GetPortMapping(w.mapID)
		if err != nil {
			return err
		}
		m.Status = models.MappingStatus(st)
		return w.n.CC.UpdatePortMapping(m)
	}
	return fmt.Errorf("unknown map state %q", w.cell.MapState)
}

// checkMapState confirms, from the FIELDS read back from the repository (never from the
// implementation's own IsExpired/IsValid verdict, which is part of what is under test),
// that the stored mapping is in the cell's state.
func (w *c04World) checkMapState() error {
	if w.cell.MapState == "missing" {
		// DeletePortMapping returned success; confirm on the STORE that the record is gone.
		// (Not through GetPortMapping: whether the service still "finds" a deleted mapping is
		// exactly what the requester's open will show.)
		if ok, err := w.n.Store.Exists(c04MappingKey(w.mapID)); err != nil || ok {
			return fmt.Errorf("mapping record still in the store after delete (exists=%v err=%v)", ok, err)
		}
		return nil
	}
	m, err := w.n.CC.GetPortMapping(w.mapID)
	if err != nil {
		return fmt.Errorf("mapping unreadable: %v", err)
	}
	switch w.cell.MapState {
	case "active":
		if m.Status != models.MappingStatusActive || m.IsRevoked || (m.ExpiresAt != nil && !m.ExpiresAt.After(time.Now().Add(time.Minute))) {
			return fmt.Errorf("stored mapping not active/unrevoked/unexpired")
		}
	case "revoked":
		if !m.IsRevoked {
			return fmt.Errorf("mapping not revoked")
		}
	case "revoked-reactivated":
		if !m.IsRevoked || m.Status != models.MappingStatusActive {
			return fmt.Errorf("mapping not revoked+status-active")
		}
	case "expired-1s", "expired-1m", "expired-1h":
		// the record must be the rewritten one (its ExpiresAt is no longer the value read
		// back before the write) and the instant WE wrote lies in the past; how the
		// implementation re-reads that instant is part of what is under test
		if m.ExpiresAt == nil || (w.oldExp != nil && m.ExpiresAt.Equal(*w.oldExp)) || !w.wantExp.Before(time.Now()) {
			return fmt.Errorf("stored ExpiresAt %v is still the old value (written: %v)", m.ExpiresAt, w.wantExp)
		}
		if !m.ExpiresAt.Equal(w.wantExp) {
			w.run.Count("expires_at_read_back_differs_from_written", 1)
		}
		if m.Status != models.MappingStatusActive || m.IsRevoked {
			return fmt.Errorf("expired cell: stored status/revoked flag changed")
		}
	case "status-error", "status-empty", "status-disabled", "status-paused", "status-Active-capitalised":
		if string(m.Status) != c04StatusValues[w.cell.MapState] || m.IsRevoked {
			return fmt.Errorf("stored status %q is not %q", m.Status, c04StatusValues[w.cell.MapState])
		}
	case "inactive":
		if m.Status != models.MappingStatusInactive || m.IsRevoked || (m.ExpiresAt != nil && !m.ExpiresAt.After(time.Now())) {
			return fmt.Errorf("stored mapping not plain-inactive")
		}
	}
	return nil
}

// c04TimeoutErr is a timeout-class network error (what a stalled Redis write returns).
type c04TimeoutErr struct{}

func (c04TimeoutErr) Error() string   { return "write tcp 10.0.0.5:6379: i/o timeout" }
func (c04TimeoutErr) Timeout() bool   { return true }
func (c04TimeoutErr) Temporary() bool { return true }

// c04MappingKey is the primary storage key of a mapping record.
func c04MappingKey(id string) string { return constants.KeyPrefixPortMapping + ":" + id }

// bridgeOf returns the bridge (on node) that holds e's connection, if any.
func c04BridgeOf(node *miniNode, e *c04End) session.TunnelBridgeAccessor {
	if e == nil || e.c == nil {
		return nil
	}
	if b := node.SM.GetTunnelBridgeByConnectionID(e.c.ConnID); b != nil {
		return b
	}
	// a source connection is registered under its remote address (server_bridge.go)
	if b := node.SM.GetTunnelBridgeByConnectionID(e.c.sc.RemoteAddr().String()); b != nil {
		return b
	}
	return nil
}

func c04Side(b session.TunnelBridgeAccessor, e *c04End) string {
	if b == nil {
		return ""
	}
	addr := e.c.sc.RemoteAddr().String()
	switch {
	case b.GetSourceConnectionID() == e.c.ConnID || b.GetSourceConnectionID() == addr:
		return "source"
	case b.GetTargetConnectionID() == e.c.ConnID || b.GetTargetConnectionID() == addr:
		return "target"
	}
	return "?"
}

// write puts e's marker on the wire towards the server.
func (w *c04World) write(e *c04End) bool {
	if e == nil || e.c == nil {
		return false
	}
	_, err := e.c.hc.Write([]byte(e.mark))
	w.logf("%s writes marker (err=%v)", e.role, err)
	return err == nil
}

// locate waits (bounded) until marker has been received by one of the ends.
// Returns the role that received it, "" if the watchdog expired.
func (w *c04World) locate(marker string, expectConsumer bool) string {
	ends := []*c04End{w.rq, w.vL, w.vT}
	deadline := time.Now().Add(3 * time.Second)
	if !expectConsumer {
		// no connection is attached opposite the writer: nothing can legitimately or
		// illegitimately consume the marker except through a bridge we do not see;
		// give the server a short grace period only.
		deadline = time.Now().Add(3 * time.Millisecond)
	}
	for {
		for _, e := range ends {
			if e == nil {
				continue
			}
			e.drain()
			if e.has(marker) {
				return e.role
			}
		}
		if time.Now().After(deadline) {
			if expectConsumer {
				w.run.Count("watchdog_marker_unlocated", 1)
			}
			return ""
		}
		time.Sleep(200 * time.Microsecond)
	}
}

type c04Obs struct {
	Ack                string   `json:"ack"`
	SendErr            string   `json:"send_err"`
	Attached           string   `json:"attached_as"`
	Leaked             []string `json:"victim_markers_read_by_requester"`
	Injected           []string `json:"victims_that_read_requester_marker"`
	PeerData           bool     `json:"requester_received_peer_data"`
	VictimBridgeSeen   bool     `json:"requester_met_existing_bridge,omitempty"`
	VictimStartedFirst bool     `json:"racing_victim_started_first,omitempty"`
	Trace              []string `json:"trace"`
	SetupError         string   `json:"setup_error,omitempty"`
}

func (w *c04World) requesterRequest() *packet.TunnelOpenRequest {
	req := &packet.TunnelOpenRequest{TunnelID: w.tunnel}
	if w.cell.Foreign != "" {
		// a credential that is VALID for mapping A, with the tunnel id of mapping B's bridge
		req.MappingID = w.mapAID
		if w.cell.Cred == "id+secret" {
			req.SecretKey = w.secretA
		}
		return req
	}
	switch w.cell.Cred {
	case "id":
		req.MappingID = w.mapID
	case "id+secret":
		req.MappingID = w.mapID
		req.SecretKey = w.secret
	case "id+wrong":
		req.MappingID = w.mapID
		req.SecretKey = "not-the-secret-" + w.secret
	case "id+prefix1", "id+prefix-half", "id+prefix-allbutlast", "id+secret+suffix", "id+caseflip", "id+onechar", "id+padded":
		req.MappingID = w.mapID
		req.SecretKey = c04NearMiss(w.cell.Cred, w.secret)
	case "resume":
		req.MappingID = w.mapID
		req.ResumeToken = "Z2FyYmFnZS1yZXN1bWUtdG9rZW4.c2ln"
	case "none":
	}
	return req
}

// c04NearMiss derives a credential that is NOT the secret but close to it.
func c04NearMiss(kind, secret string) string {
	if len(secret) < 4 {
		return "x" + secret + "x"
	}
	switch kind {
	case "id+prefix1":
		return secret[:1]
	case "id+prefix-half":
		return secret[:len(secret)/2]
	case "id+prefix-allbutlast":
		return secret[:len(secret)-1]
	case "id+secret+suffix":
		return secret + "0"
	case "id+caseflip":
		b := []byte(secret)
		for i, c := range b {
			if c >= 'a' && c <= 'z' {
				b[i] = c - 'a' + 'A'
				break
			}
			if c >= 'A' && c <= 'Z' {
				b[i] = c - 'A' + 'a'
				break
			}
		}
		return string(b)
	case "id+onechar":
		b := []byte(secret)
		i := len(b) - 1
		if b[i] == 'z' {
			b[i] = 'y'
		} else {
			b[i] = 'z'
		}
		return string(b)
	case "id+padded":
		return " " + secret + " "
	}
	return "not-" + secret
}

// legitActivity is what the mapping's own parties and the server legitimately keep doing
// between the moment the mapping reached its state and the requester's TunnelOpen:
// traffic reports of both parties through the real command path on their control
// connections, the server-side stats update, a heartbeat, a config fetch. None of it may
// make a revoked / expired / inactive / deleted mapping usable again; the policy is
// decided by the state the harness established.
func (w *c04World) legitActivity() {
	for i, c := range []*miniClient{w.L, w.T} {
		body, _ := json.Marshal(&packet.TrafficReportRequest{MappingID: w.mapID, BytesSent: 4096 + int64(i), BytesReceived: 1024, Connections: 1, Timestamp: time.Now().UnixMilli()})
		err := c.Send(&packet.TransferPacket{PacketType: packet.JsonCommand, CommandPacket: &packet.CommandPacket{
			CommandType: packet.TunnelTrafficReport, CommandId: fmt.Sprintf("c04-tr-%d", i), CommandBody: string(body)}})
		w.logf("traffic report by party %d: err=%v", i, err)
		_ = c.Send(&packet.TransferPacket{PacketType: packet.Heartbeat})
	}
	if m, err := w.n.CC.GetPortMapping(w.mapID); err == nil {
		st := m.TrafficStats
		st.BytesSent += 777
		st.BytesReceived += 333
		st.LastUpdated = time.Now()
		w.logf("server-side stats update: err=%v", w.n.CC.UpdatePortMappingStats(w.mapID, &st))
	}
	if cc := w.n.SM.GetControlConnectionByClientID(w.L.ClientID); cc != nil {
		_, err := w.n.Auth.GetClientConfig(cc)
		w.logf("config fetch by listen client: err=%v", err)
	}
	w.run.Count("cells_with_intervening_activity", 1)
}

// runCell executes one cell; ok=false means the harness could not set the cell up
// (counted, never a verdict).
func c04RunCell(t *testing.T, run *vk.Run, cell c04Cell, idx int) (obs c04Obs, ok bool) {
	w, err := c04NewWorld(t, run, cell, idx)
	defer w.close()
	fail := func(f string, a ...any) (c04Obs, bool) {
		obs.SetupError = fmt.Sprintf(f, a...)
		obs.Trace = w.trace
		return obs, false
	}
	if err != nil {
		return fail("world: %v", err)
	}
	// ---- tunnel state at arrival (mapping still active) ----
	if cell.Tunnel == "waiting" || cell.Tunnel == "served" || cell.Tunnel == "remote" {
		if err := w.victimListenOpen(); err != nil {
			return fail("victim listen: %v", err)
		}
		if !c04Ok(w.vL) {
			return fail("victim listen open refused: %s %s", c04AckStr(w.vL.ack), w.vL.err)
		}
		if c04BridgeOf(w.nb, w.vL) == nil {
			return fail("victim bridge not registered")
		}
	}
	if cell.Tunnel == "served" {
		if err := w.victimTargetOpen(); err != nil {
			return fail("victim target: %v", err)
		}
		if !c04Ok(w.vT) {
			return fail("victim target open refused: %s %s", c04AckStr(w.vT.ack), w.vT.err)
		}
		// the pair must really be bridged before the requester arrives
		pre := "<<C04-pre-" + w.tunnel + ">>"
		w.vL.c.hc.Write([]byte(pre))
		if got := w.locate(pre, true); got != "victimT" {
			return fail("served pair does not carry data (pre-marker at %q)", got)
		}
		run.Count("served_pair_carried_data", 1)
	}
	// ---- mapping state ----
	if err := w.setMapState(); err != nil {
		return fail("set map state: %v", err)
	}
	// barrier: PortMappingRepo.Get goes through singleflight, so a read that started
	// before the state change (e.g. the asynchronous target notification of the victim's
	// open) can still be handed to a later caller; once a read reports the new state every
	// later read does too.
	var stErr error
	for try := 0; try < c04Rereads; try++ {
		if stErr = w.checkMapState(); stErr == nil {
			break
		}
		run.Count("map_state_reread", 1)
		time.Sleep(200 * time.Microsecond) // pause between re-reads; the bound is the count
	}
	if stErr != nil {
		return fail("map state: %v", stErr)
	}
	// ---- intervening legitimate activity (no re-check afterwards: the state the harness
	// established decides the policy) ----
	if !cell.NoActivity {
		w.legitActivity()
	}
	// ---- the requester ----
	var id int64
	var sec string
	switch cell.Identity {
	case "listen":
		id, sec = w.L.ClientID, w.L.Secret
	case "target":
		id, sec = w.T.ClientID, w.T.Secret
	case "other":
		id, sec = w.U.ClientID, w.U.Secret
	case "listenA":
		id, sec = w.LA.ClientID, w.LA.Secret
	case "targetA":
		id, sec = w.TA.ClientID, w.TA.Secret
	}
	rq, err := w.newEnd(w.n, "requester", id, sec)
	if err != nil {
		return fail("requester: %v", err)
	}
	w.rq = rq
	if cell.Identity == "unauth-p1" {
		claim := w.L.ClientID
		if cell.Kind == "serverlisten" {
			claim = w.T.ClientID
		}
		r, _ := rq.c.Phase1(claim, "tunnel")
		if r == nil || r.Challenge == "" {
			return fail("phase1 gave no challenge")
		}
	}
	req := w.requesterRequest()
	if cell.Tunnel == "racing" {
		// the victim's source open and the requester's open race on the real dispatcher
		if err := w.victimListenPrepare(); err != nil {
			return fail("racing victim listen: %v", err)
		}
		vdone := make(chan struct{})
		r := run.Rand(fmt.Sprintf("race-%d", idx))
		w.jitter = [2]time.Duration{time.Duration(r.Intn(300)) * time.Microsecond, time.Duration(r.Intn(1500)) * time.Microsecond}
		go func() {
			defer close(vdone)
			time.Sleep(w.jitter[0])
			w.victimListenSend()
		}()
		time.Sleep(w.jitter[1])
		w.open(rq, req)
		select {
		case <-vdone:
		case <-time.After(20 * time.Second):
			run.Count("watchdog_racing_victim", 1)
			return fail("racing victim open did not return")
		}
	} else if strings.HasPrefix(cell.Cred, "raw:") {
		w.openRaw(rq, w.tunnel, w.rawPayload())
	} else {
		w.open(rq, req)
	}
	obs.Ack = c04AckStr(rq.ack)
	obs.SendErr = rq.err
	obs.VictimBridgeSeen = strings.Contains(rq.err, "existing bridge")
	obs.VictimStartedFirst = w.jitter[0] < w.jitter[1]
	w.logf("requester open %+v: ack=%s err=%q", *req, obs.Ack, rq.err)
	entitled, _, _ := c04Policy(cell)
	admittedByAck := c04Ok(rq)

	attach := func() {
		if obs.Attached != "" {
			return
		}
		if b := c04BridgeOf(w.n, rq); b != nil {
			obs.Attached = c04Side(b, rq) + "@" + b.GetTunnelID()
		}
	}
	attach()

	// ---- data probe ----
	legit := entitled && admittedByAck
	// first the marker of the victim that is already there
	if w.vL != nil && w.write(w.vL) {
		b := c04BridgeOf(w.nb, w.vL)
		expect := (b != nil && b.GetTargetConnectionID() != "") || (cell.Tunnel == "remote" && admittedByAck)
		w.logf("victimL marker located at %q", w.locate(w.vL.mark, expect))
	}
	if w.vT != nil && w.write(w.vT) {
		w.logf("victimT marker located at %q", w.locate(w.vT.mark, true))
	}
	attach()
	// then the legitimate parties that arrive after the requester
	switch cell.Tunnel {
	case "none":
		if cell.Kind == "serverlisten" {
			// nobody but the server can be the source; the target dials the id it is told
			if !legit && cell.MapState == "active" {
				if err := w.victimTargetOpen(); err != nil {
					return fail("late victim target: %v", err)
				}
			}
		} else if !legit {
			if err := w.victimListenOpen(); err != nil {
				return fail("late victim listen: %v", err)
			}
			if c04Ok(w.vL) && cell.MapState == "active" {
				if err := w.victimTargetOpen(); err != nil {
					return fail("late victim target: %v", err)
				}
			}
		} else if cell.Identity == "listen" {
			if err := w.victimTargetOpen(); err != nil {
				return fail("late victim target: %v", err)
			}
		}
	case "waiting", "remote", "racing":
		if cell.Kind != "serverlisten" && !legit && cell.MapState == "active" && (cell.Tunnel != "racing" || c04Ok(w.vL)) {
			if err := w.victimTargetOpen(); err != nil {
				return fail("late victim target: %v", err)
			}
		}
	}
	if cell.Tunnel == "none" && cell.Kind != "serverlisten" && !legit && c04Ok(w.vL) && w.write(w.vL) {
		b := c04BridgeOf(w.nb, w.vL)
		expect := b != nil && b.GetTargetConnectionID() != "" && b.GetSourceConnectionID() != ""
		w.logf("late victimL marker located at %q", w.locate(w.vL.mark, expect))
	}
	if cell.Tunnel != "served" && c04Ok(w.vT) && w.write(w.vT) {
		w.logf("late victimT marker located at %q", w.locate(w.vT.mark, cell.Kind != "serverlisten" && w.vTFirst && c04BridgeOf(w.nb, w.vT) != nil))
	}
	// the requester's own marker (injection towards a victim)
	if w.write(rq) {
		b := c04BridgeOf(w.n, rq)
		expect := b != nil && b.GetTargetConnectionID() != "" && b.GetSourceConnectionID() != ""
		if cell.Tunnel == "served" {
			expect = false // a replaced end is not read by the running copy loops
		}
		w.logf("requester marker located at %q", w.locate(rq.mark, expect || (cell.Tunnel == "remote" && admittedByAck)))
	}
	attach()
	for _, e := range []*c04End{w.rq, w.vL, w.vT} {
		e.drain()
	}
	for _, v := range []*c04End{w.vL, w.vT} {
		if v == nil {
			continue
		}
		if rq.has(v.mark) {
			obs.Leaked = append(obs.Leaked, v.role)
		}
		if v.has(rq.mark) {
			obs.Injected = append(obs.Injected, v.role)
		}
	}
	obs.PeerData = len(obs.Leaked) > 0
	obs.Trace = w.trace
	return obs, true
}

func c04Judge(run *vk.Run, cell c04Cell, obs c04Obs) {
	entitled, why, ambiguous := c04Policy(cell)
	ackOK := obs.Ack == "success"
	admitted := ackOK || obs.Attached != "" || len(obs.Leaked) > 0 || len(obs.Injected) > 0
	tag := "tunnel=" + cell.Tunnel
	switch {
	case ambiguous:
		run.Count("cells_ambiguous_no_verdict", 1)
		if admitted {
			run.Count("ambiguous_admitted", 1)
		}
	case entitled:
		run.Count("cells_entitled", 1)
		if ackOK {
			run.Count("entitled_admitted|"+tag, 1)
		} else {
			run.Count("entitled_refused|"+tag, 1)
			run.Count("entitled_refused|"+tag+"|id="+cell.Identity, 1)
		}
		if obs.PeerData {
			run.Count("entitled_saw_peer_data|"+tag, 1)
		}
	default:
		run.Count("cells_not_entitled", 1)
		detail := map[string]any{"cell": cell, "why_not_entitled": why, "observed": obs}
		if admitted {
			run.Count("admitted|map="+cell.MapState+"|id="+cell.Identity+"|cred="+cell.Cred, 1)
			if len(obs.Leaked) > 0 {
				run.Count("unentitled_read_victim_data|"+tag, 1)
			}
			if len(obs.Injected) > 0 {
				run.Count("unentitled_injected_data|"+tag, 1)
			}
			if obs.Attached != "" {
				run.Count("unentitled_attached|"+tag, 1)
			}
			run.Violation("C04:admitted|"+tag+"|why="+why, detail)
		} else if !strings.HasPrefix(obs.Ack, "failure") {
			run.Violation("C04:no-failure-ack|"+tag+"|why="+why, detail)
		} else {
			run.Count("refused_with_failure_ack", 1)
		}
	}
}

func c04Cells(tunnels []string) []c04Cell {
	var out []c04Cell
	for _, k := range c04Kinds {
		for _, tu := range tunnels {
			for _, ms := range c04MapStates {
				for _, id := range c04Identities {
					for _, cr := range c04Creds {
						if k == "conncode" && cr != "id" && cr != "id+wrong" && cr != "resume" && cr != "none" {
							continue // empty secret: "id+secret" is the same request as "id"; no near misses of an empty secret
						}
						if k == "serverlisten" && tu == "served" {
							// on the current tree a target joining a server-listened tunnel over a
							// TCP-like transport is classified as a re-connecting SOURCE
							// (handleExistingBridge: extractClientID()==0 == ListenClientID), so a served
							// pair cannot be established; not this property's concern
							continue
						}
						if k == "serverlisten" && (id == "listen" || (strings.HasPrefix(cr, "id+") && cr != "id+secret" && cr != "id+wrong")) {
							continue // no listen client exists; near misses are covered by the keyed kind
						}
						out = append(out, c04Cell{Kind: k, Tunnel: tu, MapState: ms, Identity: id, Cred: cr})
					}
				}
			}
		}
	}
	return out
}

func c04RunMatrix(t *testing.T, run *vk.Run, cells []c04Cell) {
	for i, cell := range cells {
		run.Case(cell.key(), nil)
		obs, ok := c04RunCell(t, run, cell, i)
		if !ok {
			run.Count("cells_setup_failed", 1)
			run.Observe("setup_failed|"+cell.key(), obs)
			if run.Counter("cells_setup_failed") >= c04MaxSetupFail {
				run.Observe("aborted", fmt.Sprintf("%d cells could not be set up; stopping at cell %d of %d (inconclusive through the cells_executed floor)", c04MaxSetupFail, i, len(cells)))
				return
			}
			continue
		}
		run.Eval(1)
		run.Count("cells_executed", 1)
		run.Count("cells_executed|tunnel="+cell.Tunnel, 1)
		run.Distinct(cell.key())
		if i%97 == 0 {
			run.Sample(map[string]any{"cell": cell, "observed": obs})
		}
		c04Judge(run, cell, obs)
	}
}

func TestVerifC04Matrix(t *testing.T) {
	run := vk.Start(t, "C04", "matrix")
	defer run.Finish()
	run.Rule("full product mapping-kind{keyed,conncode} x tunnel-state{none,waiting,served} x mapping-state{active,revoked,revoked-reactivated,expired-1s,expired-1m,expired-1h,inactive,missing} x identity{unauth,unauth-p1,listen,target,other} x credential{id,id+secret,id+wrong,resume,none, and 7 near misses of the right secret: 1-char/half/all-but-last prefix, secret+suffix, case-flipped, one char changed, whitespace-padded} (conncode mappings have an empty secret: id+secret and the near misses are dropped there); between establishing the mapping state and the requester's TunnelOpen both parties send non-zero TunnelTrafficReports and heartbeats on their control connections, the server-side stats update runs and the listen client's config is fetched; one fresh mini-server per cell, requester sends TunnelOpen for the victim's predictable tunnel id; every cell is a distinct case")
	cells := c04Cells(c04Tunnels)
	c04RunMatrix(t, run, cells)
	run.Exhaustive(true)
	run.Floor("cells_executed", int64(len(cells)))
	for _, tu := range c04Tunnels {
		run.Floor("entitled_admitted|tunnel="+tu, 1)
	}
	// the probe can see data: an admitted entitled requester reads its peer's marker; on an
	// already served tunnel a late (even entitled) arrival is attached but idle, there the
	// evidence is the victims' own pre-marker
	run.Floor("entitled_saw_peer_data|tunnel=none", 1)
	run.Floor("entitled_saw_peer_data|tunnel=waiting", 1)
	run.Floor("served_pair_carried_data", 200)
	run.Floor("cells_not_entitled", 400)
}

// TestVerifC04Race: the victim's source open and the requester's open are issued
// concurrently for the same (predictable) tunnel id, so the requester meets the
// dispatcher in whichever state the race produces (no bridge yet / bridge just
// registered). Verdicts are order-independent: an unentitled requester must be refused
// in every interleaving.
func TestVerifC04Race(t *testing.T) {
	run := vk.Start(t, "C04", "race")
	defer run.Finish()
	run.Rule("seeded draws of (mapping kind, mapping state, identity, credential) with tunnel-state=racing: victim source open and requester open run concurrently with seeded start offsets (victim 0-300us, requester 0-1500us: the victim's validated open takes about a millisecond); distinct = cell x which side the dispatcher served first (observed)")
	r := run.Rand("cells")
	n := run.Pick(150, 3000)
	for i := 0; i < n; i++ {
		cell := c04Cell{
			Kind:     c04Kinds[r.Intn(2)], // a server-chosen tunnel id cannot be raced for
			Tunnel:   "racing",
			MapState: c04MapStates[r.Intn(len(c04MapStates))],
			Identity: c04Identities[r.Intn(len(c04Identities))],
			Cred:     c04Creds[r.Intn(len(c04Creds))],
		}
		if r.Intn(3) > 0 {
			cell.MapState = "active" // the victim can only open while the mapping is active
		}
		if cell.Kind == "conncode" && cell.Cred == "id+secret" {
			cell.Cred = "id"
		} else if cell.Kind == "conncode" && strings.HasPrefix(cell.Cred, "id+") && cell.Cred != "id+wrong" {
			cell.Cred = "id+wrong"
		}
		cell.NoActivity = r.Intn(4) == 0
		run.Case(cell.key(), nil)
		obs, ok := c04RunCell(t, run, cell, 100000+i)
		if !ok {
			run.Count("cells_setup_failed", 1)
			if run.Counter("cells_setup_failed") >= c04MaxSetupFail {
				run.Observe("aborted", "too many cells could not be set up")
				break
			}
			continue
		}
		run.Eval(1)
		run.Count("cells_executed", 1)
		first := "requester-started-first"
		if obs.VictimStartedFirst {
			first = "victim-started-first"
		}
		run.Count(first, 1)
		if obs.VictimBridgeSeen {
			run.Count("requester_met_existing_bridge", 1)
		}
		run.Distinct(cell.key() + "|" + first)
		if i < 3 {
			run.Sample(map[string]any{"cell": cell, "observed": obs})
		}
		c04Judge(run, cell, obs)
		if run.Violations() > 20 {
			break
		}
	}
	run.Floor("cells_executed", int64(n*9/10))
	run.Floor("cells_not_entitled", int64(n/2))
}

func TestVerifC04Remote(t *testing.T) {
	run := vk.Start(t, "C04", "remote")
	defer run.Finish()
	run.Rule("same product with tunnel-state=remote: the victim's bridge waits on node-b (real CrossNodeListener on a loopback port, shared storage, routing table), the requester arrives at node-a and is forwarded over real loopback TCP; every cell is a distinct case")
	cells := c04Cells([]string{"remote"})
	c04RunMatrix(t, run, cells)
	run.Exhaustive(true)
	run.Floor("cells_executed", int64(len(cells)))
	run.Floor("entitled_admitted|tunnel=remote", 1)
	run.Floor("entitled_saw_peer_data|tunnel=remote", 1)
}

// ---------------------------------------------------------------------------------
// Revocation in flight: an entitled requester's TunnelOpen is held (gated storage double
// under node-a) right after its credential validation has read the mapping; meanwhile the
// mapping is revoked / set inactive through a SECOND service instance (node-b) on the
// same store, and that call returns. Then the open is released. When both have returned
// the mapping is revoked/inactive by every reading of the statement, so a fresh
// TunnelOpen by the listen client must be refused. (The held open itself was validated
// before the revocation and gets no verdict.)

type c04Inflight struct {
	Kind      string `json:"kind"`      // keyed | conncode
	Requester string `json:"requester"` // listen (no bridge yet) | target (joins the victim's waiting bridge)
	Action    string `json:"action"`    // revoke | inactive
	GateAt    int    `json:"gate_at"`   // the open is held before its n-th read of the mapping record
}

func c04RunInflight(t *testing.T, run *vk.Run, c c04Inflight, idx int) {
	cell := c04Cell{Kind: c.Kind, Tunnel: "none", MapState: "active", Identity: c.Requester, Cred: "id"}
	if c.Requester == "target" {
		cell.Tunnel = "waiting"
	}
	w := &c04World{t: t, run: run, cell: cell}
	defer w.close()
	bg, cancel := context.WithCancel(context.Background())
	w.cleanup = append(w.cleanup, cancel)
	mem := memory.New(bg)
	gate := vk.NewGated("node-a", mem)
	gate.SetHook(nil)
	gate.KeepLog(true)
	w.n = newMiniNode(t, miniOpts{NodeID: "node-a", Store: gate, NoCommands: true})
	w.nb = w.n
	admin := newMiniNode(t, miniOpts{NodeID: "node-b", Store: mem, NoCommands: true})
	defer admin.Close()
	if err := w.populate(idx); err != nil {
		run.Count("cells_setup_failed", 1)
		run.Observe(fmt.Sprintf("setup_failed|inflight-%d", idx), err.Error())
		return
	}
	if cell.Tunnel == "waiting" {
		if err := w.victimListenOpen(); err != nil || !c04Ok(w.vL) {
			run.Count("cells_setup_failed", 1)
			return
		}
	}
	var id int64
	var sec string
	if c.Requester == "listen" {
		id, sec = w.L.ClientID, w.L.Secret
	} else {
		id, sec = w.T.ClientID, w.T.Secret
	}
	rq, err := w.newEnd(w.n, "requester", id, sec)
	if err != nil {
		run.Count("cells_setup_failed", 1)
		return
	}
	w.rq = rq

	var armed atomic.Bool
	var reads atomic.Int32
	reached, hold := make(chan struct{}), make(chan struct{})
	var releaseOnce sync.Once
	release := func() { releaseOnce.Do(func() { close(hold) }) }
	defer release()
	suffix := ":" + w.mapID
	gate.SetHook(func(tier, op, key string) error {
		// only reads made by the held open's own goroutine count (the hook runs on the caller's stack)
		if armed.Load() && op == "Get" && strings.HasSuffix(key, suffix) && c04OnStack("c04HeldOpen") {
			if int(reads.Add(1)) == c.GateAt {
				close(reached)
				<-hold
			}
		}
		return nil
	})
	c04Quiesce(gate, func() { _, _ = w.n.CC.GetPortMapping(w.mapID) })
	armed.Store(true)
	done := make(chan struct{})
	go c04HeldOpen(w, rq, &packet.TunnelOpenRequest{MappingID: w.mapID, TunnelID: w.tunnel}, done)
	gated := false
	select {
	case <-reached:
		gated = true
		run.Count("open_held_after_validation_read", 1)
	case <-done:
		run.Count("gate_not_reached", 1)
	case <-time.After(10 * time.Second):
		run.Count("watchdog_inflight", 1)
		release()
		return
	}
	// the administrative action through the other service instance; it returns before the
	// held open continues
	var actErr error
	switch c.Action {
	case "revoke":
		actErr = admin.CCS.RevokeMapping(w.mapID, w.T.ClientID, "verif-admin")
	case "inactive":
		actErr = admin.CC.UpdatePortMappingStatus(w.mapID, models.MappingStatusInactive)
	}
	w.logf("%s through node-b while the open is held: err=%v", c.Action, actErr)
	release()
	select {
	case <-done:
	case <-time.After(10 * time.Second):
		run.Count("watchdog_inflight", 1)
		return
	}
	armed.Store(false)
	gate.SetHook(nil)
	if actErr != nil {
		run.Count("cells_setup_failed", 1)
		return
	}
	w.logf("held open returned: ack=%s err=%q", c04AckStr(rq.ack), rq.err)
	run.Eval(1)
	run.Count("cells_executed", 1)
	if gated {
		run.Distinct(fmt.Sprintf("%+v", c))
	}
	// stored state as the second instance reads it (observation)
	stored := map[string]any{}
	if m, err := admin.CC.GetPortMapping(w.mapID); err == nil {
		stored["status"], stored["is_revoked"] = string(m.Status), m.IsRevoked
		lost := (c.Action == "revoke" && !m.IsRevoked) || (c.Action == "inactive" && m.Status == models.MappingStatusActive)
		if lost {
			run.Count("stored_state_lost_the_admin_action", 1)
		}
	} else {
		stored["error"] = err.Error()
	}
	// a fresh, entitled-looking open after both calls returned
	fresh, err := w.newEnd(w.n, "fresh-listen", w.L.ClientID, w.L.Secret)
	if err != nil {
		run.Count("cells_setup_failed", 1)
		return
	}
	w.open(fresh, &packet.TunnelOpenRequest{MappingID: w.mapID, TunnelID: w.tunnel + "-fresh"})
	w.logf("fresh open by the listen client: ack=%s err=%q", c04AckStr(fresh.ack), fresh.err)
	att := ""
	if b := c04BridgeOf(w.n, fresh); b != nil {
		att = c04Side(b, fresh) + "@" + b.GetTunnelID()
	}
	detail := map[string]any{"case": c, "stored_after": stored, "fresh_ack": c04AckStr(fresh.ack), "fresh_attached_as": att, "trace": w.trace}
	var opsOnKey []string
	for _, o := range gate.Log() {
		if strings.HasSuffix(o.Key, suffix) {
			opsOnKey = append(opsOnKey, o.Op)
		}
	}
	detail["node_a_store_ops_on_mapping_record"] = opsOnKey
	switch {
	case c04Ok(fresh) || att != "":
		run.Violation("C04:admitted|tunnel=revoke-in-flight|why=mapping-not-valid", detail)
	case fresh.ack == nil:
		run.Violation("C04:no-failure-ack|tunnel=revoke-in-flight|why=mapping-not-valid", detail)
	default:
		run.Count("refused_with_failure_ack", 1)
	}
	if idx < 2 {
		run.Sample(detail)
	}
}

// ---------------------------------------------------------------------------------
// Concurrent validation: an ENTITLED client's secret-key TunnelOpen is held (gated
// storage double) inside its credential validation, at its read of the mapping record.
// While it is held, other connections present the SAME mapping id + right secret: an
// authenticated unrelated client, an unauthenticated connection, one that only did
// phase 1. Each request is judged by its own identity cell of the matrix, whatever was
// in flight next to it.

// c04Quiesce waits until nothing but the harness touches node-a's store (asynchronous
// config pushes / notifications after set-up have finished): a held open must perform its
// own reads, not share an in-flight read of a background reader. Bounded by a poll count.
func c04Quiesce(g *vk.Gated, read func()) {
	quiet := 0
	for p := 0; p < 400 && quiet < 5; p++ {
		before := g.Ops()
		time.Sleep(300 * time.Microsecond)
		if g.Ops() == before {
			quiet++
		} else {
			quiet = 0
		}
	}
	read() // joins (and thereby outlives) any read still in flight
}

// c04HeldOpen is the goroutine body of an open that a gate is meant to hold (named, so the
// storage hook can tell that a read is made on this goroutine's stack).
func c04HeldOpen(w *c04World, e *c04End, req *packet.TunnelOpenRequest, done chan struct{}) {
	defer close(done)
	w.open(e, req)
}

// c04OnStack reports whether the calling goroutine's stack contains fn.
func c04OnStack(fn string) bool {
	pcs := make([]uintptr, 256)
	frames := runtime.CallersFrames(pcs[:runtime.Callers(1, pcs)])
	for {
		f, more := frames.Next()
		if strings.Contains(f.Function, fn) {
			return true
		}
		if !more {
			return false
		}
	}
}

// c04ConcOtherOpen is the body of every concurrent requester goroutine (a named function
// so that its goroutine can be recognised in a stack dump).
func c04ConcOtherOpen(w *c04World, e *c04End, req *packet.TunnelOpenRequest, started *atomic.Int32, done chan struct{}) {
	defer close(done)
	started.Add(1)
	w.open(e, req)
}

// c04ParkedCoalesced counts concurrent-requester goroutines that are parked waiting for
// the result of somebody else's in-flight call (singleflight-style coalescing, at any layer).
func c04ParkedCoalesced() int {
	buf := make([]byte, 4<<20)
	n := runtime.Stack(buf, true)
	cnt := 0
	for _, g := range strings.Split(string(buf[:n]), "\n\n") {
		if strings.Contains(g, "c04ConcOtherOpen") && strings.Contains(g, "singleflight") && strings.Contains(g, "WaitGroup") {
			cnt++
		}
	}
	return cnt
}

type c04Conc struct {
	Entitled string `json:"entitled"` // listen (opens a new tunnel) | target (joins the victim's waiting bridge)
}

func c04RunConcurrent(t *testing.T, run *vk.Run, c c04Conc, idx int) {
	cell := c04Cell{Kind: "keyed", Tunnel: "none", MapState: "active", Identity: c.Entitled, Cred: "id+secret"}
	if c.Entitled == "target" {
		cell.Tunnel = "waiting"
	}
	w := &c04World{t: t, run: run, cell: cell}
	defer w.close()
	bg, cancel := context.WithCancel(context.Background())
	w.cleanup = append(w.cleanup, cancel)
	gate := vk.NewGated("node-a", memory.New(bg))
	gate.SetHook(nil)
	w.n = newMiniNode(t, miniOpts{NodeID: "node-a", Store: gate, NoCommands: true})
	w.nb = w.n
	setupFail := func(why string) {
		run.Count("cells_setup_failed", 1)
		run.Observe(fmt.Sprintf("setup_failed|concurrent-%d", idx), why)
	}
	if err := w.populate(idx); err != nil {
		setupFail(err.Error())
		return
	}
	if cell.Tunnel == "waiting" {
		if err := w.victimListenOpen(); err != nil || !c04Ok(w.vL) {
			setupFail("victim listen open")
			return
		}
	}
	var id int64
	var sec string
	if c.Entitled == "listen" {
		id, sec = w.L.ClientID, w.L.Secret
	} else {
		id, sec = w.T.ClientID, w.T.Secret
	}
	ent, err := w.newEnd(w.n, "entitled", id, sec)
	if err != nil {
		setupFail(err.Error())
		return
	}
	type other struct {
		identity          string
		e                 *c04End
		done              chan struct{}
		inFlightAtRelease bool
	}
	var others []*other
	for _, ident := range []string{"other", "unauth", "unauth-p1", "other"} {
		var oid int64
		var osec string
		if ident == "other" {
			oid, osec = w.U.ClientID, w.U.Secret
		}
		e, err := w.newEnd(w.n, "requester-"+ident, oid, osec)
		if err != nil {
			setupFail(err.Error())
			return
		}
		if ident == "unauth-p1" {
			if r, _ := e.c.Phase1(w.L.ClientID, "tunnel"); r == nil || r.Challenge == "" {
				setupFail("phase1")
				return
			}
		}
		others = append(others, &other{identity: ident, e: e, done: make(chan struct{})})
	}
	req := func() *packet.TunnelOpenRequest {
		return &packet.TunnelOpenRequest{MappingID: w.mapID, TunnelID: w.tunnel, SecretKey: w.secret}
	}

	var armed, heldOnce atomic.Bool
	var reads atomic.Int32
	reached, hold := make(chan struct{}), make(chan struct{})
	var releaseOnce sync.Once
	release := func() { releaseOnce.Do(func() { close(hold) }) }
	defer release()
	suffix := ":" + w.mapID
	gate.SetHook(func(tier, op, key string) error {
		if armed.Load() && op == "Get" && strings.HasSuffix(key, suffix) {
			if !c04OnStack("c04HeldOpen") {
				reads.Add(1) // another requester reached the store itself
				return nil
			}
			if heldOnce.CompareAndSwap(false, true) {
				reads.Add(1)
				close(reached)
				<-hold
			}
		}
		return nil
	})
	c04Quiesce(gate, func() { _, _ = w.n.CC.GetPortMapping(w.mapID) })
	armed.Store(true)
	entDone := make(chan struct{})
	go c04HeldOpen(w, ent, req(), entDone)
	select {
	case <-reached:
		run.Count("entitled_open_held_in_validation", 1)
	case <-entDone:
		run.Count("gate_not_reached", 1)
	case <-time.After(10 * time.Second):
		run.Count("watchdog_concurrent", 1)
		return
	}
	// the others arrive while the entitled validation is in flight
	var started atomic.Int32
	for _, o := range others {
		go c04ConcOtherOpen(w, o.e, req(), &started, o.done)
	}
	// release only when every other request has either finished, is parked behind the
	// in-flight call, or has gone to the store itself (bounded number of polls)
	arrived := false
	for poll := 0; poll < 5000 && !arrived; poll++ {
		fin := 0
		for _, o := range others {
			select {
			case <-o.done:
				fin++
			default:
			}
		}
		if int(started.Load()) == len(others) && fin+c04ParkedCoalesced()+int(reads.Load())-1 >= len(others) {
			arrived = true
			break
		}
		time.Sleep(200 * time.Microsecond)
	}
	if !arrived {
		run.Count("others_not_all_arrived_before_release", 1)
	}
	for _, o := range others {
		select {
		case <-o.done:
		default:
			o.inFlightAtRelease = true
		}
	}
	w.logf("releasing the entitled open; others in flight: %v", func() (l []string) {
		for _, o := range others {
			if o.inFlightAtRelease {
				l = append(l, o.identity)
			}
		}
		return
	}())
	release()
	for _, ch := range append([]chan struct{}{entDone}, func() (l []chan struct{}) {
		for _, o := range others {
			l = append(l, o.done)
		}
		return
	}()...) {
		select {
		case <-ch:
		case <-time.After(10 * time.Second):
			run.Count("watchdog_concurrent", 1)
			return
		}
	}
	armed.Store(false)
	gate.SetHook(nil)
	w.logf("entitled open: ack=%s err=%q", c04AckStr(ent.ack), ent.err)
	// data probe: the entitled end (and the victim source) write markers
	w.rq = ent
	for _, v := range []*c04End{ent, w.vL} {
		if v != nil && c04Ok(v) && w.write(v) {
			b := c04BridgeOf(w.n, v)
			w.locateAmong(v.mark, b != nil && b.GetTargetConnectionID() != "" && b.GetSourceConnectionID() != "", others2ends(others, func(o *other) *c04End { return o.e }))
		}
	}
	run.Eval(1)
	run.Count("cells_executed", 1)
	if c04Ok(ent) {
		run.Count("entitled_admitted|tunnel=concurrent", 1)
	}
	for i, o := range others {
		o.e.drain()
		oc := c04Cell{Kind: "keyed", Tunnel: "concurrent", MapState: "active", Identity: o.identity, Cred: "id+secret"}
		obs := c04Obs{Ack: c04AckStr(o.e.ack), SendErr: o.e.err}
		if b := c04BridgeOf(w.n, o.e); b != nil {
			obs.Attached = c04Side(b, o.e) + "@" + b.GetTunnelID()
		}
		for _, v := range []*c04End{ent, w.vL} {
			if v != nil && o.e.has(v.mark) {
				obs.Leaked = append(obs.Leaked, v.role)
			}
		}
		obs.Trace = w.trace
		if o.inFlightAtRelease {
			run.Count("request_overlapped_held_validation|id="+o.identity, 1)
		}
		run.Distinct(fmt.Sprintf("%s|%s|%d|overlap=%v", c.Entitled, o.identity, i, o.inFlightAtRelease))
		c04Judge(run, oc, obs)
	}
	if idx%7 == 0 {
		run.Sample(map[string]any{"case": c, "trace": w.trace})
	}
}

func others2ends[T any](in []T, f func(T) *c04End) []*c04End {
	var out []*c04End
	for _, x := range in {
		out = append(out, f(x))
	}
	return out
}

// locateAmong is locate() over an explicit set of extra ends.
func (w *c04World) locateAmong(marker string, expectConsumer bool, extra []*c04End) string {
	polls := 15000 // x 200us: a count bound; expiry only counts a watchdog
	if !expectConsumer {
		polls = 15
	}
	ends := append([]*c04End{w.rq, w.vL, w.vT}, extra...)
	for p := 0; p < polls; p++ {
		for _, e := range ends {
			if e == nil {
				continue
			}
			e.drain()
			if e.has(marker) {
				w.logf("marker %s located at %s", marker, e.role)
				return e.role
			}
		}
		time.Sleep(200 * time.Microsecond)
	}
	if expectConsumer {
		w.run.Count("watchdog_marker_unlocated", 1)
	}
	return ""
}

func TestVerifC04ConcurrentValidation(t *testing.T) {
	run := vk.Start(t, "C04", "concurrent")
	defer run.Finish()
	run.Rule("entitled opener{listen opening a new tunnel, target joining a waiting bridge} with mapping id + right secret is held by a gated storage double at its validation read of the mapping record; meanwhile 4 other connections {unrelated authenticated client x2, unauthenticated, phase-1 only} send TunnelOpen with the same mapping id + right secret + tunnel id; the hold is released once every other request has finished, is parked behind an in-flight call, or reached the store; repeated; distinct = (opener, other identity, overlapped the held validation?)")
	reps := run.Pick(6, 60)
	n := 0
	for r := 0; r < reps; r++ {
		for _, e := range []string{"listen", "target"} {
			run.Case(fmt.Sprintf("concurrent|%s|%d", e, r), nil)
			c04RunConcurrent(t, run, c04Conc{Entitled: e}, 300000+n)
			n++
			if run.Violations() > 20 {
				break
			}
		}
	}
	run.Floor("cells_executed", int64(n-1))
	run.Floor("entitled_open_held_in_validation", int64(n-1))
	run.Floor("request_overlapped_held_validation|id=other", int64(2*(n-1)))
	run.Floor("entitled_admitted|tunnel=concurrent", int64(n-1))
}

// ---------------------------------------------------------------------------------
// Colliding tunnel ids across nodes. The victim's tunnel T (mapping B) lives on node-b.
// An unrelated client that owns mapping A (1) opens, as the source of its OWN mapping, a
// tunnel whose id differs from T only in characters a key/identifier normalisation might
// drop or fold ("T:", ":T", "T*", "T ", "Té", "T/", upper case), on node-b; then (2) opens T
// on node-a presenting mapping A. Whatever (2) yields for mapping A's own purposes, the
// connection must never be attached to the victim's tunnel: it must not read a victim's
// bytes, no victim end may read its bytes, and no bridge of mapping B may hold it.
// (A success ack alone is not decisive here: with the victim's waiting record expired the
// client legitimately becomes the source of a NEW tunnel T of its own mapping on node-a.)

type c04Collide struct {
	State   string `json:"victim_tunnel"` // waiting | served
	Expired bool   `json:"victim_record_expired"`
	Variant string `json:"id_variant"`
	Cred    string `json:"cred"` // id | id+secret (of mapping A)
}

func c04CollidingID(variant, t string) (victim, attacker string) {
	switch variant {
	case "suffix-colon":
		return t, t + ":"
	case "prefix-colon":
		return t, ":" + t
	case "star":
		return t, t[:4] + "*" + t[4:]
	case "space":
		return t, t + " "
	case "unicode":
		return t, t + "é"
	case "slash":
		return t, t + "/"
	case "upper":
		return t, strings.ToUpper(t)
	case "victim-has-colon":
		return strings.Replace(t, "-", ":", 1), strings.Replace(t, "-", "", 1)
	}
	return t, t + ":"
}

func c04RunCollide(t *testing.T, run *vk.Run, c c04Collide, idx int) {
	cell := c04Cell{Kind: "keyed", Tunnel: "remote", MapState: "active", Identity: "listenA", Cred: c.Cred, Foreign: "disjoint"}
	if c.Expired {
		cell.RoutingTTLms = 150
	}
	w, err := c04NewWorld(t, run, cell, idx)
	defer w.close()
	setupFail := func(why string) {
		run.Count("cells_setup_failed", 1)
		run.Observe(fmt.Sprintf("setup_failed|collide-%d", idx), why)
	}
	if err != nil {
		setupFail(err.Error())
		return
	}
	var attackerID string
	w.tunnel, attackerID = c04CollidingID(c.Variant, w.tunnel)
	// the victim's tunnel on node-b
	if err := w.victimListenOpen(); err != nil || !c04Ok(w.vL) {
		setupFail("victim listen open")
		return
	}
	if c.State == "served" {
		if err := w.victimTargetOpen(); err != nil || !c04Ok(w.vT) {
			setupFail("victim target open")
			return
		}
		pre := "<<C04-pre-" + w.tunnel + ">>"
		w.vL.c.hc.Write([]byte(pre))
		if got := w.locate(pre, true); got != "victimT" {
			setupFail("served pair carries no data")
			return
		}
		run.Count("served_pair_carried_data", 1)
	}
	if c.Expired {
		// logical wait: until the routing table itself reports the victim's record gone
		gone := false
		for p := 0; p < 4000 && !gone; p++ {
			if _, err := w.nb.Routing.LookupWaitingTunnel(w.nb.ctx, w.tunnel); err != nil {
				gone = true
				break
			}
			time.Sleep(500 * time.Microsecond)
		}
		if !gone {
			run.Count("watchdog_record_not_expired", 1)
			return
		}
		run.Count("victim_record_expired_before_attack", 1)
	} else if _, err := w.nb.Routing.LookupWaitingTunnel(w.nb.ctx, w.tunnel); err == nil {
		run.Count("victim_record_live_before_attack", 1)
	}
	// (1) the unrelated client's own tunnel with the colliding id, on the victim's node
	own, err := w.newEnd(w.nb, "attacker-own-source", w.LA.ClientID, w.LA.Secret)
	if err != nil {
		setupFail(err.Error())
		return
	}
	w.open(own, &packet.TunnelOpenRequest{MappingID: w.mapAID, TunnelID: attackerID})
	w.logf("unrelated client opens its own tunnel %q (mapping A) on node-b: ack=%s err=%q", attackerID, c04AckStr(own.ack), own.err)
	if c04Ok(own) {
		run.Count("own_colliding_tunnel_opened", 1)
	}
	if _, err := w.nb.Routing.LookupWaitingTunnel(w.nb.ctx, attackerID); err == nil {
		run.Count("own_colliding_record_live_at_step2", 1)
	}
	// (2) the same client opens the victim's id on node-a with mapping A's credential
	rq, err := w.newEnd(w.n, "requester", w.LA.ClientID, w.LA.Secret)
	if err != nil {
		setupFail(err.Error())
		return
	}
	w.rq = rq
	req := &packet.TunnelOpenRequest{MappingID: w.mapAID, TunnelID: w.tunnel}
	if c.Cred == "id+secret" {
		req.SecretKey = w.secretA
	}
	w.open(rq, req)
	w.logf("requester opens %q on node-a presenting mapping A: ack=%s err=%q", w.tunnel, c04AckStr(rq.ack), rq.err)
	obs := c04Obs{Ack: c04AckStr(rq.ack), SendErr: rq.err}
	ownBridge := false
	if b := c04BridgeOf(w.n, rq); b != nil {
		obs.Attached = c04Side(b, rq) + "@" + b.GetTunnelID() + "/mapping=" + b.GetMappingID()
		ownBridge = b.GetMappingID() == w.mapAID
		if ownBridge {
			run.Count("requester_became_source_of_its_own_new_tunnel", 1)
		}
	}
	// probe: a forwarded (not locally bridged) admitted requester is the only case in which
	// bytes can move; wait (bounded polls) only then
	forwarded := c04Ok(rq) && !ownBridge
	ends := []*c04End{w.vL, w.vT}
	for _, v := range ends {
		if v != nil {
			w.write(v)
		}
	}
	w.write(rq)
	if forwarded {
		run.Count("requester_forwarded_across_nodes", 1)
		w.locateAmong(rq.mark, true, []*c04End{own})
	} else {
		w.locateAmong(rq.mark, false, []*c04End{own})
	}
	for _, e := range []*c04End{rq, w.vL, w.vT, own} {
		e.drain()
	}
	for _, v := range ends {
		if v == nil {
			continue
		}
		if rq.has(v.mark) {
			obs.Leaked = append(obs.Leaked, v.role)
		}
		if v.has(rq.mark) {
			obs.Injected = append(obs.Injected, v.role)
		}
	}
	obs.Trace = w.trace
	run.Eval(1)
	run.Count("cells_executed", 1)
	run.Distinct(fmt.Sprintf("%+v", c))
	detail := map[string]any{"case": c, "victim_tunnel_id": w.tunnel, "colliding_id": attackerID, "observed": obs}
	heldByB := obs.Attached != "" && !ownBridge
	if len(obs.Leaked) > 0 || len(obs.Injected) > 0 || heldByB {
		run.Violation("C04:admitted|tunnel=remote-colliding-id|why=tunnel-of-another-mapping", detail)
	} else {
		run.Count("not_attached_to_victim_tunnel", 1)
	}
	if idx%5 == 0 {
		run.Sample(detail)
	}
}

func TestVerifC04CollidingIDs(t *testing.T) {
	run := vk.Start(t, "C04", "collide")
	defer run.Finish()
	run.Rule("two nodes on one store (real CrossNodeListener + TunnelConnectionManager); product victim tunnel{waiting,served} x id variant{suffix ':', prefix ':', '*', trailing space, unicode letter, '/', upper-cased, victim id itself contains ':'} x credential of mapping A{id,id+secret} with the victim's waiting record live, plus {waiting,served} x {suffix ':', '*'} with the victim's record expired (routing TTL 150 ms, expiry observed through the routing table itself); every case distinct")
	variants := []string{"suffix-colon", "prefix-colon", "star", "space", "unicode", "slash", "upper", "victim-has-colon"}
	var cases []c04Collide
	for _, st := range []string{"waiting", "served"} {
		for _, v := range variants {
			for _, cr := range []string{"id", "id+secret"} {
				cases = append(cases, c04Collide{State: st, Variant: v, Cred: cr})
			}
		}
	}
	nExp := 0
	for _, st := range []string{"waiting", "served"} {
		for _, v := range variants[:run.Pick(2, len(variants))] {
			cases = append(cases, c04Collide{State: st, Expired: true, Variant: v, Cred: "id"})
			nExp++
		}
	}
	for i, c := range cases {
		run.Case(fmt.Sprintf("%+v", c), nil)
		c04RunCollide(t, run, c, 500000+i)
		if run.Counter("cells_setup_failed") >= c04MaxSetupFail {
			break
		}
	}
	run.Exhaustive(true)
	run.Floor("cells_executed", int64(len(cases)))
	run.Floor("own_colliding_tunnel_opened", int64(len(cases)))
	run.Floor("own_colliding_record_live_at_step2", int64(len(cases)-nExp)) // with the short TTL the own record may lapse too
	run.Floor("victim_record_expired_before_attack", int64(nExp))
	run.Floor("victim_record_live_before_attack", int64(len(cases)-nExp))
}

// ---------------------------------------------------------------------------------
// Lifecycle histories. A mapping goes through a sequence of ordinary operations — used by a
// mapping-id open (which rewrites the record: RecordMappingUsage), traffic reports, a
// usage write stamped by a node whose clock runs 3 s ahead, status toggles, revocation,
// expiry, deletion — each issued through the real services and each acknowledged. The
// harness keeps the state those ACKNOWLEDGED operations define; a final TunnelOpen by the
// listen / target client is judged by the matrix policy for that state ("missing" once a
// delete was acknowledged, "revoked" once a revoke was, ...).

type c04HistModel struct {
	deleted, revoked, expired bool
	active                    bool
}

func (m c04HistModel) mapState() string {
	switch {
	case m.deleted:
		return "missing"
	case m.revoked && m.active:
		return "revoked-reactivated"
	case m.revoked:
		return "revoked"
	case m.expired:
		return "expired-1m"
	case !m.active:
		return "inactive"
	}
	return "active"
}

// c04RunHistory applies ops and performs the final opens. Returns false on set-up trouble.
func c04RunHistory(t *testing.T, run *vk.Run, kind string, ops []string, idx int, cluster bool) bool {
	cell := c04Cell{Kind: kind, Tunnel: "none", MapState: "active", Identity: "listen", Cred: "id"}
	var w *c04World
	var err error
	adm := (*miniNode)(nil) // the node through which "another party" changes the mapping
	var shared *vk.Gated
	if cluster {
		// cluster storage layout of the server (createStorage): per node a local cache, one
		// shared cache (Redis) and one persistent tier (database) behind HybridStorage
		w = &c04World{t: t, run: run, cell: cell}
		bg, cancel := context.WithCancel(context.Background())
		w.cleanup = append(w.cleanup, cancel)
		shared = vk.NewGated("shared-cache", memory.New(bg))
		shared.SetHook(nil)
		db := vk.NewMapPersistent("db")
		db.SetHook(nil)
		mk := func(id string) *miniNode {
			cfg := storage.DefaultHybridConfig()
			cfg.EnablePersistent = true
			return newMiniNode(t, miniOpts{NodeID: id, NoCommands: true,
				Store: storage.NewHybridStorageWithSharedCache(bg, memory.New(bg), shared, db, cfg)})
		}
		w.n = mk("node-a")
		w.nb = w.n
		adm = mk("node-b")
		defer adm.Close()
		err = w.populate(idx)
	} else {
		w, err = c04NewWorld(t, run, cell, idx)
		adm = w.n
	}
	defer w.close()
	if err != nil {
		run.Count("cells_setup_failed", 1)
		run.Observe(fmt.Sprintf("setup_failed|history-%d", idx), err.Error())
		return false
	}
	// oneSharedCacheTimeout makes exactly the next shared-cache write of the mapping record
	// fail with a timeout-class error (a short Redis stall); the persistent write is untouched
	oneSharedCacheTimeout := func() func() bool {
		if shared == nil {
			return func() bool { return false }
		}
		var armed, fired atomic.Bool
		armed.Store(true)
		key := c04MappingKey(w.mapID)
		shared.SetHook(func(tier, op, k string) error {
			if op == "Set" && k == key && armed.CompareAndSwap(true, false) {
				fired.Store(true)
				return c04TimeoutErr{}
			}
			return nil
		})
		return func() bool { shared.SetHook(nil); return fired.Load() }
	}
	pmRepo := repos.NewPortMappingRepo(adm.Repo)
	model := c04HistModel{active: true}
	uses := 0
	for _, op := range ops {
		var opErr error
		var timeoutFired func() bool
		if strings.HasSuffix(op, "!cache-timeout") {
			op = strings.TrimSuffix(op, "!cache-timeout")
			timeoutFired = oneSharedCacheTimeout()
		}
		switch op {
		case "use":
			// a complete legitimate mapping-id tunnel: source opens, target joins, both leave
			before := w.T.hc.Pending()
			w.tunnel = fmt.Sprintf("tcp-tunnel-%d-%d-u%d", 1700000000000000000+int64(idx), 18080, uses)
			uses++
			if err := w.victimListenOpen(); err != nil {
				opErr = err
				break
			}
			if c04Ok(w.vL) {
				run.Count("history_use_admitted", 1)
				// the open's asynchronous target notification has finished its read of the
				// mapping once the target's control connection received the command
				for p := 0; p < 4000 && w.T.hc.Pending() == before; p++ {
					time.Sleep(250 * time.Microsecond)
				}
				if w.T.hc.Pending() == before {
					run.Count("watchdog_notify_not_seen", 1)
				}
			}
			w.vL.c.CloseByPeer()
			w.vL = nil
		case "report":
			body, _ := json.Marshal(&packet.TrafficReportRequest{MappingID: w.mapID, BytesSent: 2048, BytesReceived: 512, Connections: 1, Timestamp: time.Now().UnixMilli()})
			opErr = w.L.Send(&packet.TransferPacket{PacketType: packet.JsonCommand, CommandPacket: &packet.CommandPacket{
				CommandType: packet.TunnelTrafficReport, CommandId: "c04-hist", CommandBody: string(body)}})
		case "skewed-usage-write":
			// what RecordMappingUsage on a node whose wall clock is 3 s ahead leaves in the store
			m, err := pmRepo.GetPortMapping(w.mapID)
			if err != nil {
				opErr = err
				break
			}
			ahead := time.Now().Add(3 * time.Second)
			m.LastActive, m.UpdatedAt = &ahead, ahead
			opErr = pmRepo.UpdatePortMapping(m)
		case "revoke":
			if opErr = adm.CCS.RevokeMapping(w.mapID, w.T.ClientID, "verif"); opErr == nil {
				model.revoked, model.active = true, false
			}
		case "inactive":
			if opErr = adm.CC.UpdatePortMappingStatus(w.mapID, models.MappingStatusInactive); opErr == nil {
				model.active = false
			}
		case "activate":
			if opErr = adm.CC.UpdatePortMappingStatus(w.mapID, models.MappingStatusActive); opErr == nil {
				model.active = true
			}
		case "expire":
			m, err := adm.CC.GetPortMapping(w.mapID)
			if err != nil {
				opErr = err
				break
			}
			past := time.Now().Add(-time.Minute)
			m.ExpiresAt = &past
			if opErr = adm.CC.UpdatePortMapping(m); opErr == nil {
				model.expired = true
			}
		case "delete":
			if opErr = adm.CC.DeletePortMapping(w.mapID); opErr == nil {
				model.deleted = true
			}
		}
		if timeoutFired != nil {
			if timeoutFired() {
				run.Count("shared_cache_write_timed_out_during_op", 1)
				if opErr == nil {
					run.Count("op_acknowledged_despite_cache_timeout", 1)
				}
			} else {
				run.Count("injected_timeout_not_reached", 1)
			}
		}
		w.logf("op %s: err=%v -> acknowledged state %s", op, opErr, model.mapState())
		if model.deleted && op != "delete" {
			continue // operations on a deleted mapping may fail; nothing to record
		}
	}
	state := model.mapState()
	run.Count("history_final_state|"+state, 1)
	// final opens, each on a fresh tunnel id
	type fin struct{ identity, cred string }
	fins := []fin{{"listen", "id"}}
	if kind == "keyed" {
		fins = append(fins, fin{"listen", "id+secret"}, fin{"target", "id+secret"})
	}
	nodes := []*miniNode{w.n}
	if cluster {
		nodes = append(nodes, adm)
	}
	for i := 0; i < len(fins)*len(nodes); i++ {
		f, node := fins[i%len(fins)], nodes[i/len(fins)]
		c := w.L
		if f.identity == "target" {
			c = w.T
		}
		e, err := w.newEnd(node, "final-"+f.identity+"@"+node.NodeID, c.ClientID, c.Secret)
		if err != nil {
			run.Count("cells_setup_failed", 1)
			return false
		}
		req := &packet.TunnelOpenRequest{MappingID: w.mapID, TunnelID: fmt.Sprintf("tcp-tunnel-%d-%d-f%d", 1700000000000000000+int64(idx), 18080, i)}
		if f.cred == "id+secret" {
			req.SecretKey = w.secret
		}
		w.open(e, req)
		w.logf("final open by %s with %s on %s: ack=%s err=%q", f.identity, f.cred, node.NodeID, c04AckStr(e.ack), e.err)
		obs := c04Obs{Ack: c04AckStr(e.ack), SendErr: e.err}
		if b := c04BridgeOf(node, e); b != nil {
			obs.Attached = c04Side(b, e) + "@" + b.GetTunnelID()
		}
		obs.Trace = append([]string{"history: " + strings.Join(ops, " > ")}, w.trace...)
		jc := c04Cell{Kind: kind, Tunnel: "after-history", MapState: state, Identity: f.identity, Cred: f.cred}
		if cluster {
			jc.Tunnel = "after-history-cluster"
		}
		run.Eval(1)
		c04Judge(run, jc, obs)
	}
	run.Count("cells_executed", 1)
	return true
}

func TestVerifC04History(t *testing.T) {
	run := vk.Start(t, "C04", "history")
	defer run.Finish()
	run.Rule("directed histories (use>delete, report>delete, use>use>delete, skewed-usage-write>revoke, skewed-usage-write>inactive, use>revoke, use>revoke>activate, use>expire, use>inactive>report, delete alone, ...) and seeded random histories of 2-7 operations over {use, report, skewed-usage-write, revoke, inactive, activate, expire, delete} for keyed and conncode mappings; final opens by the listen client (id, id+secret) and target client (id+secret) judged against the state defined by the acknowledged operations; distinct = (kind, history)")
	directed := [][]string{
		{"use", "delete"}, {"report", "delete"}, {"use", "use", "delete"}, {"use", "report", "delete"}, {"delete"},
		{"skewed-usage-write", "revoke"}, {"skewed-usage-write", "inactive"}, {"use", "skewed-usage-write", "revoke"},
		{"use", "revoke"}, {"use", "revoke", "activate"}, {"use", "revoke", "report"}, {"use", "expire"}, {"use", "inactive", "report"},
		{"use", "inactive", "activate"}, {"use", "report"}, {"skewed-usage-write"},
	}
	n := 0
	for _, kind := range []string{"keyed", "conncode"} {
		for _, h := range directed {
			run.Case(kind+"|"+strings.Join(h, ">"), nil)
			if c04RunHistory(t, run, kind, h, 600000+n, false) {
				run.Distinct(kind + "|" + strings.Join(h, ">"))
			}
			n++
		}
	}
	// the same on the cluster storage layout, where another party's state change meets one
	// timed-out shared-cache write
	clusterHist := [][]string{
		{"use", "revoke!cache-timeout"}, {"use", "inactive!cache-timeout"}, {"use", "expire!cache-timeout"},
		{"use", "report", "revoke!cache-timeout"}, {"revoke!cache-timeout"}, {"use", "delete"}, {"use", "revoke"}, {"use"},
		{"use", "revoke!cache-timeout", "activate"}, {"use", "inactive!cache-timeout", "report"},
	}
	nCluster := 0
	for _, kind := range []string{"keyed", "conncode"} {
		for _, h := range clusterHist {
			run.Case("cluster|"+kind+"|"+strings.Join(h, ">"), nil)
			if c04RunHistory(t, run, kind, h, 600000+n, true) {
				run.Distinct("cluster|" + kind + "|" + strings.Join(h, ">"))
				nCluster++
			}
			n++
		}
	}
	run.Count("cluster_histories_executed", int64(nCluster))
	r := run.Rand("histories")
	opsAll := []string{"use", "report", "skewed-usage-write", "revoke", "inactive", "activate", "expire", "delete", "use", "report"}
	for i := 0; i < run.Pick(40, 800); i++ {
		var h []string
		for j, l := 0, 2+r.Intn(6); j < l; j++ {
			h = append(h, opsAll[r.Intn(len(opsAll))])
		}
		kind := c04Kinds[r.Intn(2)]
		run.Case(kind+"|"+strings.Join(h, ">"), nil)
		cl := r.Intn(4) == 0
		if cl {
			for j := range h {
				if (h[j] == "revoke" || h[j] == "inactive" || h[j] == "expire") && r.Intn(2) == 0 {
					h[j] += "!cache-timeout"
				}
			}
		}
		if c04RunHistory(t, run, kind, h, 600000+n, cl) {
			run.Distinct(fmt.Sprintf("%v|%s|%s", cl, kind, strings.Join(h, ">")))
		}
		n++
		if run.Violations() > 20 || run.Counter("cells_setup_failed") >= c04MaxSetupFail {
			break
		}
	}
	run.Floor("cells_executed", int64(n-2))
	run.Floor("history_use_admitted", 20)
	run.Floor("cluster_histories_executed", 20)
	run.Floor("shared_cache_write_timed_out_during_op", 12)
	run.Floor("op_acknowledged_despite_cache_timeout", 12)
	run.Floor("entitled_admitted|tunnel=after-history-cluster", 2)
	run.Floor("history_final_state|missing", 8)
	run.Floor("history_final_state|revoked", 4)
	run.Floor("history_final_state|active", 4)
	run.Floor("entitled_admitted|tunnel=after-history", 4)
	run.Floor("refused_with_failure_ack", 20)
}

// TestVerifC04StatusValues: a mapping whose Status is anything but "active" (error, empty,
// free-form values the management API stores unvalidated) is not an active mapping.
func TestVerifC04StatusValues(t *testing.T) {
	run := vk.Start(t, "C04", "status")
	defer run.Finish()
	run.Rule("product mapping-kind{keyed,conncode} x tunnel-state{none,waiting} x stored status{error, empty, 'disabled', 'paused', 'Active'} x identity{listen,target,other} x credential{id,id+secret}, status written through CloudControl.UpdatePortMapping; every cell is a distinct case")
	var cells []c04Cell
	for _, k := range []string{"keyed", "conncode"} {
		for _, tu := range []string{"none", "waiting"} {
			for _, ms := range []string{"status-error", "status-empty", "status-disabled", "status-paused", "status-Active-capitalised"} {
				for _, id := range []string{"listen", "target", "other"} {
					for _, cr := range []string{"id", "id+secret"} {
						if k == "conncode" && cr == "id+secret" {
							continue
						}
						cells = append(cells, c04Cell{Kind: k, Tunnel: tu, MapState: ms, Identity: id, Cred: cr})
					}
				}
			}
		}
	}
	c04RunMatrix(t, run, cells)
	run.Exhaustive(true)
	run.Floor("cells_executed", int64(len(cells)))
	run.Floor("cells_not_entitled", int64(len(cells)-20))
}

// TestVerifC04LateBridge: a client entitled only to its own mapping A opens the victim's
// predictable tunnel id T while NO bridge exists (so the dispatcher's up-front checks have
// nothing to compare with); its open is held (gated store) at its first read of mapping A
// after its acknowledgement was written, the victim's listen client creates bridge T of
// mapping B meanwhile, then the open continues. It must never end up attached to T(B).
// As in the colliding-id family the success ack alone is not decisive (it was for mapping
// A's own, not yet existing, tunnel): the verdict is attachment to the victim's tunnel.
func TestVerifC04LateBridge(t *testing.T) {
	run := vk.Start(t, "C04", "latebridge")
	defer run.Finish()
	run.Rule("requester{target client of A with A's id+secret, listen client of A with A's id, with A's id+secret} x repetitions; the requester's open is held at its first read of mapping A's record after its ack was written; the victim's source open for the same tunnel id (mapping B) runs inside the hold; distinct = requester x repetition")
	type lb struct{ identity, cred string }
	cases := []lb{{"targetA", "id+secret"}, {"listenA", "id"}, {"listenA", "id+secret"}}
	n := 0
	for r := 0; r < run.Pick(3, 20); r++ {
		for _, c := range cases {
			run.Case(fmt.Sprintf("latebridge|%s|%s|%d", c.identity, c.cred, r), nil)
			c04RunLateBridge(t, run, c.identity, c.cred, 700000+n)
			n++
		}
	}
	run.Floor("cells_executed", int64(n-1))
	run.Floor("open_held_after_its_ack", int64(n-1))
	run.Floor("victim_bridge_created_inside_hold", int64(n-1))
}

func c04RunLateBridge(t *testing.T, run *vk.Run, identity, cred string, idx int) {
	cell := c04Cell{Kind: "keyed", Tunnel: "none", MapState: "active", Identity: identity, Cred: cred, Foreign: "disjoint"}
	w := &c04World{t: t, run: run, cell: cell}
	defer w.close()
	bg, cancel := context.WithCancel(context.Background())
	w.cleanup = append(w.cleanup, cancel)
	gate := vk.NewGated("node-a", memory.New(bg))
	gate.SetHook(nil)
	w.n = newMiniNode(t, miniOpts{NodeID: "node-a", Store: gate, NoCommands: true})
	w.nb = w.n
	if err := w.populate(idx); err != nil {
		run.Count("cells_setup_failed", 1)
		return
	}
	c := w.TA
	if identity == "listenA" {
		c = w.LA
	}
	rq, err := w.newEnd(w.n, "requester", c.ClientID, c.Secret)
	if err != nil {
		run.Count("cells_setup_failed", 1)
		return
	}
	w.rq = rq
	if err := w.victimListenPrepare(); err != nil {
		run.Count("cells_setup_failed", 1)
		return
	}
	var armed atomic.Bool
	reached, hold := make(chan struct{}), make(chan struct{})
	var once, relOnce sync.Once
	release := func() { relOnce.Do(func() { close(hold) }) }
	defer release()
	keyA := c04MappingKey(w.mapAID)
	gate.SetHook(func(tier, op, key string) error {
		if armed.Load() && op == "Get" && key == keyA && rq.c.hc.Pending() > 0 {
			held := false
			once.Do(func() { held = true })
			if held {
				close(reached)
				<-hold
			}
		}
		return nil
	})
	c04Quiesce(gate, func() { _, _ = w.n.CC.GetPortMapping(w.mapID) })
	armed.Store(true)
	req := &packet.TunnelOpenRequest{MappingID: w.mapAID, TunnelID: w.tunnel}
	if cred == "id+secret" {
		req.SecretKey = w.secretA
	}
	done := make(chan struct{})
	go func() { defer close(done); w.open(rq, req) }()
	select {
	case <-reached:
		run.Count("open_held_after_its_ack", 1)
		w.victimListenSend() // the victim's source creates bridge T of mapping B inside the hold
		if c04Ok(w.vL) && c04BridgeOf(w.n, w.vL) != nil {
			run.Count("victim_bridge_created_inside_hold", 1)
		}
	case <-done:
		run.Count("gate_not_reached", 1)
	case <-time.After(10 * time.Second):
		run.Count("watchdog_latebridge", 1)
		return
	}
	release()
	select {
	case <-done:
	case <-time.After(10 * time.Second):
		run.Count("watchdog_latebridge", 1)
		return
	}
	armed.Store(false)
	gate.SetHook(nil)
	w.logf("requester open %+v: first ack=%s err=%q", *req, c04AckStr(rq.ack), rq.err)
	obs := c04Obs{Ack: c04AckStr(rq.ack), SendErr: rq.err}
	heldByVictimMapping := false
	if b := c04BridgeOf(w.n, rq); b != nil {
		obs.Attached = c04Side(b, rq) + "@" + b.GetTunnelID() + "/mapping=" + b.GetMappingID()
		heldByVictimMapping = b.GetMappingID() == w.mapID
	}
	if c04Ok(w.vL) {
		w.write(w.vL)
		w.write(rq)
		b := c04BridgeOf(w.n, w.vL)
		w.locateAmong(w.vL.mark, b != nil && b.GetTargetConnectionID() != "", nil)
		for _, e := range []*c04End{rq, w.vL} {
			e.drain()
		}
		if rq.has(w.vL.mark) {
			obs.Leaked = append(obs.Leaked, "victimL")
		}
		if w.vL.has(rq.mark) {
			obs.Injected = append(obs.Injected, "victimL")
		}
	}
	obs.Trace = w.trace
	run.Eval(1)
	run.Count("cells_executed", 1)
	run.Distinct(fmt.Sprintf("%s|%s|%d", identity, cred, idx))
	detail := map[string]any{"requester": identity, "cred": cred, "observed": obs}
	if len(obs.Leaked) > 0 || len(obs.Injected) > 0 || heldByVictimMapping {
		run.Violation("C04:admitted|tunnel=bridge-created-during-open|why=tunnel-of-another-mapping", detail)
	} else {
		run.Count("not_attached_to_victim_tunnel", 1)
	}
	if idx%4 == 0 {
		run.Sample(detail)
	}
}

// TestVerifC04ForeignTunnel: the requester holds a credential that is valid — for another
// mapping A — and presents the tunnel id of a bridge that belongs to the victim's mapping B.
func TestVerifC04ForeignTunnel(t *testing.T) {
	run := vk.Start(t, "C04", "foreign")
	defer run.Finish()
	run.Rule("product relation{A,B disjoint parties; A,B share the listen client} x tunnel-state of B's bridge{waiting,served,remote} x requester{listen client of A, target client of A} x credential{A's mapping id, A's id + A's secret}, both mappings keyed and active; plus the same requesters opening a fresh tunnel id with the same credential (reference: the credential is valid for A); every cell is a distinct case")
	var cells []c04Cell
	for _, f := range []string{"disjoint", "shared-listen"} {
		for _, tu := range []string{"waiting", "served", "remote"} {
			for _, id := range []string{"listenA", "targetA"} {
				for _, cr := range []string{"id", "id+secret"} {
					cells = append(cells, c04Cell{Kind: "keyed", Tunnel: tu, MapState: "active", Identity: id, Cred: cr, Foreign: f})
				}
			}
		}
	}
	c04RunMatrix(t, run, cells)
	// reference: the same credentials are good for mapping A itself
	for i, cr := range []string{"id", "id+secret"} {
		w, err := c04NewWorld(t, run, c04Cell{Kind: "keyed", Tunnel: "none", MapState: "active", Identity: "listenA", Cred: cr, Foreign: "disjoint"}, 400000+i)
		if err == nil {
			if e, err2 := w.newEnd(w.n, "listenA", w.LA.ClientID, w.LA.Secret); err2 == nil {
				req := &packet.TunnelOpenRequest{MappingID: w.mapAID, TunnelID: w.tunnel + "-own"}
				if cr == "id+secret" {
					req.SecretKey = w.secretA
				}
				w.open(e, req)
				if c04Ok(e) {
					run.Count("credential_of_A_admitted_on_A", 1)
				}
			}
		}
		w.close()
	}
	run.Exhaustive(true)
	run.Floor("cells_executed", int64(len(cells)))
	run.Floor("credential_of_A_admitted_on_A", 2)
	run.Floor("served_pair_carried_data", 8)
}

// TestVerifC04RawJSON: TunnelOpen bodies written byte by byte (secret_key member absent /
// empty / null, empty object, no payload, tunnel id only, all null), sent right after the
// victims' own opens on the same node, which carried the mapping's right secret. A request
// is judged by what ITS bytes present.
func TestVerifC04RawJSON(t *testing.T) {
	run := vk.Start(t, "C04", "rawjson")
	defer run.Finish()
	run.Rule("product tunnel-state{waiting,served} x mapping-state{active,revoked} x identity{unauth,unauth-p1,listen,target,other} x raw body{secret absent, secret empty, secret null, {}, no payload, tunnel id only, all members null}; keyed mapping; the immediately preceding TunnelOpen on the node is the victim's and presents the right secret; repeated in thorough; every cell is a distinct case")
	var cells []c04Cell
	for rep := 0; rep < run.Pick(1, 5); rep++ {
		for _, tu := range []string{"waiting", "served"} {
			for _, ms := range []string{"active", "revoked"} {
				for _, id := range c04Identities {
					for _, cr := range []string{"raw:secret-absent", "raw:secret-empty", "raw:secret-null", "raw:empty-object", "raw:no-payload", "raw:tunnel-only", "raw:all-null"} {
						cells = append(cells, c04Cell{Kind: "keyed", Tunnel: tu, MapState: ms, Identity: id, Cred: cr, PrimerSecret: true, NoActivity: rep%2 == 1})
					}
				}
			}
		}
	}
	c04RunMatrix(t, run, cells)
	run.Floor("cells_executed", int64(len(cells)))
	run.Floor("entitled_admitted|tunnel=waiting", 1)
	run.Floor("refused_with_failure_ack", 1)
}

// TestVerifC04Zones: a slice of the matrix with the process-local time zone set east and
// west of UTC (mapping records go through the repository's JSON serialisation on every
// write/read): what time zone the server runs in must not decide whether an expired or
// revoked mapping admits.
func TestVerifC04Zones(t *testing.T) {
	run := vk.Start(t, "C04", "zones")
	defer run.Finish()
	run.Rule("zone{UTC+8, UTC-7, UTC+13:45} as time.Local x mapping-kind{keyed,conncode} x tunnel-state{none,waiting} x mapping-state{active,expired-1s,expired-1m,expired-1h,revoked} x identity{listen,target,other} x credential{id,id+secret}; every cell is a distinct case")
	saved := time.Local
	defer func() { time.Local = saved }()
	total := 0
	for _, z := range []struct {
		name string
		off  int
	}{{"UTC+8", 8 * 3600}, {"UTC-7", -7 * 3600}, {"UTC+13:45", 13*3600 + 45*60}} {
		time.Local = time.FixedZone(z.name, z.off)
		var cells []c04Cell
		for _, k := range []string{"keyed", "conncode"} {
			for _, tu := range []string{"none", "waiting"} {
				for _, ms := range []string{"active", "expired-1s", "expired-1m", "expired-1h", "revoked"} {
					for _, id := range []string{"listen", "target", "other"} {
						for _, cr := range []string{"id", "id+secret"} {
							if k == "conncode" && cr == "id+secret" {
								continue
							}
							cells = append(cells, c04Cell{Kind: k, Tunnel: tu, MapState: ms, Identity: id, Cred: cr, Zone: z.name})
						}
					}
				}
			}
		}
		total += len(cells)
		c04RunMatrix(t, run, cells)
		run.Count("zones_run", 1)
	}
	time.Local = saved
	run.Floor("cells_executed", int64(total))
	run.Floor("zones_run", 3)
	run.Floor("entitled_admitted|tunnel=none", 3)
	run.Floor("entitled_admitted|tunnel=waiting", 3)
}

func TestVerifC04RevokeInFlight(t *testing.T) {
	run := vk.Start(t, "C04", "inflight")
	defer run.Finish()
	run.Rule("product mapping-kind{keyed,conncode} x requester{listen opening a new tunnel, target joining a waiting bridge (conncode only: the id-only target path)} x admin action{RevokeMapping, status->inactive} issued through a second service instance on the same store while the requester's TunnelOpen is held by a gated storage double right after its validation read of the mapping (before its 2nd read of the mapping record); repeated; distinct = case whose open really was held")
	gateAt := int(envIntC04("C04_GATE_AT", 2))
	var cases []c04Inflight
	for _, k := range []string{"keyed", "conncode"} {
		for _, a := range []string{"revoke", "inactive"} {
			cases = append(cases, c04Inflight{Kind: k, Requester: "listen", Action: a, GateAt: gateAt})
		}
	}
	for _, a := range []string{"revoke", "inactive"} {
		cases = append(cases, c04Inflight{Kind: "conncode", Requester: "target", Action: a, GateAt: gateAt})
	}
	reps := run.Pick(3, 20)
	n := 0
	for r := 0; r < reps; r++ {
		for _, c := range cases {
			run.Case(fmt.Sprintf("%+v", c), nil)
			c04RunInflight(t, run, c, 200000+n)
			n++
		}
	}
	run.Floor("cells_executed", int64(n-2))
	run.Floor("open_held_after_validation_read", int64(n-2))
	run.Floor("refused_with_failure_ack", 0)
}

func envIntC04(name string, def int64) int64 {
	if v := os.Getenv(name); v != "" {
		if x, err := strconv.ParseInt(v, 10, 64); err == nil {
			return x
		}
	}
	return def
}

var _ = sort.Strings
