//go:build verif && verif_c19

package httpservice

import (
	"fmt"
	"strings"
	"sync"
	"testing"

	"tunnox-core/internal/cloud/models"
	vk "tunnox-core/internal/verifkit"
)

// C19 (legacy source) — the in-memory DomainRegistry hands a full domain to at most
// one mapping id under concurrent Register / UnregisterByMappingID / Lookup, and
// LookupByHost never answers with a mapping of another domain.
//
// Real goroutines (≤ 8) released by a barrier; the verdict is taken from results and
// the quiescent state only (no timing). Under -race the run decides through the
// race_allowlist (domain_registry.go).

func c19RegPM(id string, client int64, sub, base string) *models.PortMapping {
	return &models.PortMapping{ID: id, TargetClientID: client, TargetHost: fmt.Sprintf("c%d.lan", client), TargetPort: 8000 + int(client%1000),
		Protocol: models.ProtocolHTTP, HTTPSubdomain: sub, HTTPBaseDomain: base, Status: models.MappingStatusActive}
}

func c19RegReadings(host string) map[string]bool {
	out := map[string]bool{}
	h := strings.ToLower(host)
	add := func(s string) { out[s] = true; out[strings.TrimSuffix(s, ".")] = true }
	add(h)
	if i := strings.LastIndexByte(h, ':'); i >= 0 {
		add(h[:i])
	}
	if i := strings.IndexByte(h, ':'); i >= 0 {
		add(h[:i])
	}
	return out
}

func TestVerifC19Registry(t *testing.T) {
	vk.Quiet()
	run := vk.Start(t, "C19", "registry")
	defer run.Finish()
	run.Rule("rounds of G∈[2,8] goroutines registering the SAME full domain under different mapping ids while others look it up by Host spellings and unregister losing ids; then the winner unregisters and the name is re-claimed; distinct = G|winner index|lookup outcomes")
	rnd := run.Rand("registry")
	rounds := run.Pick(300, 5000)
	bases := []string{"tunnox.net", "tunnel.example.org"}
	spell := func(d string) []string {
		return []string{d, d + ":80", d + ":65535", strings.ToUpper(d), d + ".", d + ":", "[::1]", "[::1]:80", "", "x." + d, d + ":" + "other." + bases[0]}
	}
	for round := 0; round < rounds; round++ {
		reg := NewDomainRegistry(bases)
		g := 2 + rnd.Intn(7)
		base := bases[rnd.Intn(2)]
		domain := "app." + base
		// a bystander domain owned by somebody else must never be affected
		by := c19RegPM("pm_bystander", 777, "other", bases[0])
		if err := reg.Register(by); err != nil {
			t.Fatalf("[setup failed] %v", err)
		}
		run.Case("registry-round", map[string]any{"round": round, "g": g, "domain": domain})
		okReg := make([]bool, g)
		type look struct {
			host string
			id   string
			dom  string
			hit  bool
		}
		looks := make([][]look, g)
		var start, done sync.WaitGroup
		start.Add(1)
		for i := 0; i < g; i++ {
			i := i
			hosts := spell(domain)
			h1, h2 := hosts[rnd.Intn(len(hosts))], hosts[rnd.Intn(len(hosts))]
			done.Add(1)
			go func() {
				defer done.Done()
				start.Wait()
				if m, ok := reg.LookupByHost(h1); ok {
					looks[i] = append(looks[i], look{h1, m.ID, m.FullDomain(), true})
				}
				okReg[i] = reg.Register(c19RegPM(fmt.Sprintf("pm_%d", i), int64(100+i), "app", base)) == nil
				if m, ok := reg.LookupByHost(h2); ok {
					looks[i] = append(looks[i], look{h2, m.ID, m.FullDomain(), true})
				}
				if !okReg[i] {
					// a loser cleaning up its own id must not touch the winner
					reg.UnregisterByMappingID(fmt.Sprintf("pm_%d", i))
				}
			}()
		}
		start.Done()
		done.Wait()
		run.Eval(1)
		winners := 0
		win := -1
		for i, ok := range okReg {
			if ok {
				winners++
				win = i
			}
		}
		run.Count("register_attempts", int64(g))
		if winners > 1 {
			run.Violation("C19:registry|double-owner", map[string]any{"domain": domain, "g": g, "ok": okReg})
		}
		if winners == 1 {
			run.Count("rounds_single_winner", 1)
		}
		// in-flight lookups: only mappings of a domain the host can be read as
		for i := range looks {
			for _, l := range looks[i] {
				run.Count("lookups_inflight_hit", 1)
				if !c19RegReadings(l.host)[l.dom] {
					run.Violation("C19:registry|lookup-other-domain", map[string]any{"host": l.host, "got_domain": l.dom, "got_id": l.id})
				}
			}
		}
		// quiescent state
		fp := fmt.Sprintf("g=%d|win=%d", g, win)
		if winners == 1 {
			m, ok := reg.Lookup(domain)
			if !ok {
				run.Violation("C19:registry|winner-lost", map[string]any{"domain": domain, "winner": win})
			} else if m.ID != fmt.Sprintf("pm_%d", win) {
				run.Violation("C19:registry|misroute-other-id", map[string]any{"domain": domain, "winner": win, "got": m.ID})
			}
			for _, h := range spell(domain) {
				m, ok := reg.LookupByHost(h)
				run.Count("lookups_quiescent", 1)
				if !ok {
					continue
				}
				run.Count("lookups_quiescent_hit", 1)
				fp += "|" + h[:min(len(h), 3)]
				rd := c19RegReadings(h)
				if !rd[m.FullDomain()] {
					run.Violation("C19:registry|lookup-other-domain", map[string]any{"host": h, "got_domain": m.FullDomain(), "got_id": m.ID})
				} else if m.FullDomain() == domain && m.TargetClientID != int64(100+win) {
					run.Violation("C19:registry|misroute-other-client", map[string]any{"host": h, "winner": win, "got_client": m.TargetClientID})
				}
			}
			// owner leaves; name stops resolving and is claimable again
			reg.UnregisterByMappingID(fmt.Sprintf("pm_%d", win))
			if _, ok := reg.Lookup(domain); ok {
				run.Violation("C19:registry|routes-after-unregister", map[string]any{"domain": domain})
			}
			if err := reg.Register(c19RegPM("pm_next", 555, "app", base)); err != nil {
				run.Violation("C19:registry|not-reclaimable", map[string]any{"domain": domain, "err": err.Error()})
			} else {
				run.Count("reclaims_ok", 1)
			}
		}
		if m, ok := reg.Lookup(by.FullDomain()); !ok || m.ID != by.ID {
			run.Violation("C19:registry|bystander-lost", map[string]any{"domain": by.FullDomain()})
		}
		run.Distinct(fp)
		if run.Violations() >= 20 {
			break
		}
	}
	run.Floor("rounds_single_winner", int64(run.Pick(250, 4000)))
	run.Floor("lookups_quiescent_hit", 500)
	run.Floor("reclaims_ok", 200)
}
