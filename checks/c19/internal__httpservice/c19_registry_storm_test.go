//go:build verif && verif_c19

package httpservice

import (
	"fmt"
	"runtime"
	"sync"
	"sync/atomic"
	"testing"
	"time"

	"tunnox-core/internal/cloud/models"
	vk "tunnox-core/internal/verifkit"
)

// C19 (legacy source) — simultaneous claims of one FREE full domain in the
// DomainRegistry: at most one Register may return nil, and the name must then route
// to exactly that winner.
//
// A check-then-insert that is not one critical section only shows when two Register
// calls are inside the function at the same instant, so this monitor uses long-lived
// claimant goroutines that sleep between rounds and are released from a SPIN barrier
// (atomic generation counter, busy-wait only from "all ready" to "go") over tens of
// thousands of fresh names. Entry/exit instants around each
// Register (monotonic clock) measure how many rounds really had overlapping
// claimants; that number is the non-vacuity floor. Every wait is capped; a cap firing
// is "watchdog" (inconclusive), never a violation.

const c19StormWorkers = 8

type c19StormSlot struct {
	pm    *models.PortMapping
	ok    bool
	enter int64
	exit  int64
	_     [64]byte // keep slots on separate cache lines
}

// c19SpinUntil busy-waits until cond() holds; false when the cap (wall, generous)
// was hit.
func c19SpinUntil(cond func() bool) bool {
	var deadline time.Time
	for i := 1; ; i++ {
		if cond() {
			return true
		}
		if i&0x3ff == 0 {
			runtime.Gosched()
		}
		if i&0xfffff == 0 {
			if deadline.IsZero() {
				deadline = time.Now().Add(20 * time.Second)
			} else if time.Now().After(deadline) {
				return false
			}
		}
	}
}

func TestVerifC19RegistryStorm(t *testing.T) {
	vk.Quiet()
	run := vk.Start(t, "C19", "registry-storm")
	defer run.Finish()
	run.Rule("rounds over FRESH full domains; G∈[4,8] long-lived claimant goroutines (different mapping ids / clients) are released from a spin barrier and call Register at the same instant; oracle: ≤1 nil result per name, Lookup/LookupByHost(name[:port]) then answer with exactly the winner; distinct = G|number of claimants whose Register intervals overlapped|winner index")
	if runtime.GOMAXPROCS(0) < 4 {
		defer runtime.GOMAXPROCS(runtime.GOMAXPROCS(4))
	}
	rnd := run.Rand("storm")
	rounds := run.Pick(20000, 300000)
	base := "tunnox.net"
	start := time.Now()

	reg := NewDomainRegistry([]string{base})
	slots := make([]c19StormSlot, c19StormWorkers)
	var goGen, ready atomic.Int64
	var done sync.WaitGroup
	type job struct {
		gen int64
		sub string
		reg *DomainRegistry
	}
	work := make([]chan job, c19StormWorkers)
	for w := 0; w < c19StormWorkers; w++ {
		w := w
		work[w] = make(chan job, 1)
		go func() {
			// blocked (no CPU) between rounds; busy-waits only from "ready" to "go"
			for j := range work[w] {
				pm := &models.PortMapping{ID: fmt.Sprintf("pm_%s_%d", j.sub, w), TargetClientID: int64(1000 + w),
					TargetHost: fmt.Sprintf("c%d.lan", 1000+w), TargetPort: 8000 + w, Protocol: models.ProtocolHTTP,
					HTTPSubdomain: j.sub, HTTPBaseDomain: base, Status: models.MappingStatusActive}
				sl := &slots[w]
				sl.pm, sl.ok = pm, false
				ready.Add(1)
				for i := 1; goGen.Load() < j.gen; i++ { // spin barrier
					if i&0xffff == 0 {
						runtime.Gosched() // the releaser lost its CPU: let it run
					}
				}
				t0 := time.Now()
				err := j.reg.Register(pm)
				t1 := time.Now()
				sl.ok = err == nil
				sl.enter = int64(t0.Sub(start))
				sl.exit = int64(t1.Sub(start))
				done.Done()
			}
		}()
	}
	defer func() {
		for _, c := range work {
			close(c)
		}
	}()

	for round := 0; round < rounds; round++ {
		if round%2000 == 0 {
			reg = NewDomainRegistry([]string{base})
		}
		g := 4 + rnd.Intn(5)
		sub := fmt.Sprintf("storm%d", round)
		full := sub + "." + base
		if round%4096 == 0 {
			run.Case("registry-storm-round", map[string]any{"round": round, "g": g, "name": full})
		}
		gen := int64(round + 1)
		ready.Store(0)
		done.Add(g)
		for w := 0; w < g; w++ {
			work[w] <- job{gen: gen, sub: sub, reg: reg}
		}
		if !c19SpinUntil(func() bool { return ready.Load() == int64(g) }) {
			run.Count("watchdog", 1)
			goGen.Store(gen)
			done.Wait()
			break
		}
		goGen.Store(gen) // release all claimants at once
		done.Wait()
		run.Eval(1)
		run.Count("rounds", 1)
		run.Count("register_attempts", int64(g))

		// how many claimants were inside Register together with another one
		overl := 0
		for i := 0; i < g; i++ {
			for j := 0; j < g; j++ {
				if i != j && slots[i].enter < slots[j].exit && slots[j].enter < slots[i].exit {
					overl++
					break
				}
			}
		}
		if overl >= 2 {
			run.Count("rounds_with_overlapping_claims", 1)
		}
		if overl >= 4 {
			run.Count("rounds_with_4plus_overlapping_claims", 1)
		}
		winners, win := 0, -1
		var okIdx []int
		for i := 0; i < g; i++ {
			if slots[i].ok {
				winners++
				win = i
				okIdx = append(okIdx, i)
			}
		}
		r := reg
		switch {
		case winners > 1:
			d := map[string]any{"name": full, "claimants": g, "accepted_claimants": okIdx, "overlapping": overl}
			if m, ok := r.LookupByHost(full + ":443"); ok {
				d["routes_to_client"] = m.TargetClientID
				d["routes_to_id"] = m.ID
				var wronged []int64
				for _, i := range okIdx {
					if int64(1000+i) != m.TargetClientID {
						wronged = append(wronged, int64(1000+i))
					}
				}
				d["accepted_but_not_routed_clients"] = wronged
			}
			run.Count("rounds_double_owner", 1)
			run.Violation("C19:registry|double-owner", d)
		case winners == 1:
			run.Count("rounds_single_winner", 1)
			m, ok := r.Lookup(full)
			if !ok {
				run.Violation("C19:registry|winner-lost", map[string]any{"name": full, "winner": win})
			} else if m.ID != slots[win].pm.ID || m.TargetClientID != int64(1000+win) {
				run.Violation("C19:registry|misroute-other-client", map[string]any{"name": full, "winner": win, "got_id": m.ID, "got_client": m.TargetClientID})
			}
			if m, ok := r.LookupByHost(full + ":443"); ok && m.TargetClientID != int64(1000+win) {
				run.Violation("C19:registry|misroute-other-client", map[string]any{"host": full + ":443", "winner": win, "got_id": m.ID, "got_client": m.TargetClientID})
			} else if ok {
				run.Count("lookups_quiescent_hit", 1)
			}
		default:
			// nobody could claim a free name: not a statement-level violation, but
			// the round is useless — counted
			run.Count("rounds_no_winner", 1)
		}
		run.Distinct(fmt.Sprintf("g=%d|ov=%d|win=%d", g, overl, win))
		if round < 2 {
			run.Sample(map[string]any{"name": full, "claimants": g, "overlapping": overl, "winner": win})
		}
	}
	run.Floor("rounds", int64(run.Pick(20000, 300000)))
	run.Floor("rounds_single_winner", int64(run.Pick(19000, 290000)))
	run.Floor("rounds_with_overlapping_claims", int64(run.Pick(2000, 30000)))
}
