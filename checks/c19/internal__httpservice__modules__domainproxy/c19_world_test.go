//go:build verif && verif_c19

package domainproxy

import (
	"context"
	"sync/atomic"
	"fmt"
	"net/http"
	"net/http/httptest"
	"net/url"
	"sort"
	"strconv"
	"strings"
	"sync"
	"testing"
	"time"

	"github.com/alicebob/miniredis/v2"

	"tunnox-core/internal/cloud/repos"
	coreerrors "tunnox-core/internal/core/errors"
	"tunnox-core/internal/core/storage"
	"tunnox-core/internal/httpservice"
	"tunnox-core/internal/protocol/httptypes"
	vk "tunnox-core/internal/verifkit"
)

// C19 — a public domain routes only to its single rightful owner.
//
// This file: the world (real HTTPDomainMappingRepository + real DomainProxyModule on
// real memory / hybrid / hybrid+redis storages whose tiers are gated), the operation
// vocabulary, and the history-based oracle shared by the three monitors in
// c19_test.go.
//
// Oracle (never stricter than the statement):
//   truth is computed from the *history of results* only: a claim is a CreateMapping
//   that returned success; it stays live until a DeleteMapping of the returned id by
//   the same client returned success.
//   R1 a name has at most one live claim;
//   R2 a Host header whose lookup routes must route to (client,target) of the single
//      live, active, unexpired claim of the name it spells (case-insensitive, port
//      stripped, trailing dot stripped; any of these readings is accepted) — a reject
//      is always accepted;
//   R3 DeleteMapping by a client that was never handed that id, while the claim is
//      live and was never deleted by its owner, must return an error;
//   R4 after the owner's delete returned, the name rejects (R2 with no live claim) and
//      a fresh claim succeeds.

var c19Bases = []string{"tunnox.net", "tunnel.example.org"}

var c19Kinds = []string{"memory", "hybrid-mem", "hybrid-redis", "hybrid-2node"}

// ---------------------------------------------------------------- world

type c19Redis struct {
	mr *miniredis.Miniredis
	st *storage.RedisStorage
}

func c19StartRedis(t testing.TB) *c19Redis {
	mr, err := miniredis.Run()
	if err != nil {
		t.Fatalf("[setup failed] miniredis: %v", err)
	}
	st, err := storage.NewRedisStorage(context.Background(), &storage.RedisConfig{Addr: mr.Addr(), PoolSize: 4})
	if err != nil {
		t.Fatalf("[setup failed] redis storage: %v", err)
	}
	t.Cleanup(func() { st.Close(); mr.Close() })
	return &c19Redis{mr: mr, st: st}
}

// c19NoClose keeps a shared tier open when one hybrid storage is closed.
type c19NoClose struct {
	*vk.Gated
	post *atomic.Value // func(op, key string): a scheduling point AFTER a read returned (nil = none)
}

func (c19NoClose) Close() error { return nil }

// Get adds an optional gate after the inner read: the value has been sampled but not
// yet handed to the caller (a slow storage read).
func (c c19NoClose) Get(key string) (any, error) {
	v, err := c.Gated.Get(key)
	if c.post != nil {
		if f, _ := c.post.Load().(func(op, key string)); f != nil {
			f("Get.ret", key)
		}
	}
	return v, err
}

type c19Routed struct {
	Client int64
	URL    string
}

// c19SessMgr is the stub session manager behind ServeHTTP: it records which client a
// proxied request was handed to, and with which target URL.
type c19SessMgr struct {
	mu   sync.Mutex
	last *c19Routed
}

type c19Conn struct{}

func (c19Conn) GetConnID() string     { return "c19-conn" }
func (c19Conn) GetRemoteAddr() string { return "203.0.113.9:4000" }

func (s *c19SessMgr) GetControlConnectionInterface(clientID int64) httpservice.ControlConnectionAccessor {
	return c19Conn{}
}
func (s *c19SessMgr) BroadcastConfigPush(int64, string) error { return nil }
func (s *c19SessMgr) GetNodeID() string                       { return "c19-node" }
func (s *c19SessMgr) SendHTTPProxyRequest(clientID int64, req *httptypes.HTTPProxyRequest) (*httptypes.HTTPProxyResponse, error) {
	s.mu.Lock()
	s.last = &c19Routed{Client: clientID, URL: req.URL}
	s.mu.Unlock()
	return &httptypes.HTTPProxyResponse{RequestID: req.RequestID, StatusCode: 200, Headers: map[string]string{}, Body: []byte("ok")}, nil
}
func (s *c19SessMgr) RequestTunnelForHTTP(int64, string, string, string) (httpservice.TunnelConnectionInterface, error) {
	return nil, fmt.Errorf("c19: tunnel mode not driven")
}
func (s *c19SessMgr) NotifyClientUpdate(int64) {}
func (s *c19SessMgr) take() *c19Routed {
	s.mu.Lock()
	defer s.mu.Unlock()
	r := s.last
	s.last = nil
	return r
}

type c19Node struct {
	repo *repos.HTTPDomainMappingRepository
	mod  *DomainProxyModule
	reg  *httpservice.DomainRegistry
	sm   *c19SessMgr
}

type c19World struct {
	kind   string
	nodes  []*c19Node
	gates  []*vk.Gated
	post   *atomic.Value
	cancel context.CancelFunc
}

// SetPostHook installs the after-read hook of the shared tier (nil = none).
func (w *c19World) SetPostHook(f func(op, key string)) {
	if w.post != nil {
		w.post.Store(f)
	}
}

type c19WorldOpts struct {
	counterTTL time.Duration // hybrid DefaultCacheTTL override (0 = repository default, 1h)
	sharedTTL  time.Duration // hybrid SharedCacheTTL override (0 = repository default, 1h)
	postRead   bool          // shared tier: extra scheduling point after every read returned
	persist    bool          // attach a persistent tier (map-backed double) and enable persistence
}

func c19NewWorld(t testing.TB, kind string, rd *c19Redis, o c19WorldOpts) *c19World {
	ctx, cancel := context.WithCancel(context.Background())
	w := &c19World{kind: kind, cancel: cancel}
	mem := func() storage.FullStorage {
		fs, ok := storage.NewMemoryStorage(ctx).(storage.FullStorage)
		if !ok {
			t.Fatalf("[setup failed] memory storage is not a FullStorage")
		}
		return fs
	}
	cfg := func() *storage.HybridConfig {
		c := storage.DefaultHybridConfig()
		if o.counterTTL > 0 {
			c.DefaultCacheTTL = o.counterTTL
		}
		if o.sharedTTL > 0 {
			c.SharedCacheTTL = o.sharedTTL
		}
		c.EnablePersistent = o.persist
		return c
	}
	var pers storage.PersistentStorage
	if o.persist {
		pers = vk.NewMapPersistent("persistent") // one database shared by all nodes
	}
	var stores []storage.Storage
	switch kind {
	case "memory":
		g := vk.NewGated("mem", mem())
		w.gates = append(w.gates, g)
		stores = append(stores, g)
	case "hybrid-mem":
		g := vk.NewGated("cache", mem())
		w.gates = append(w.gates, g)
		stores = append(stores, storage.NewHybridStorageWithSharedCache(ctx, g, nil, pers, cfg()))
	case "hybrid-redis", "hybrid-2node":
		if rd == nil {
			t.Fatalf("[setup failed] store kind %s needs redis", kind)
		}
		rd.mr.FlushAll()
		if o.postRead {
			w.post = &atomic.Value{}
			w.post.Store((func(op, key string))(nil))
		}
		sh := vk.NewGated("redis", rd.st)
		w.gates = append(w.gates, sh)
		n := 1
		if kind == "hybrid-2node" {
			n = 2
		}
		for i := 0; i < n; i++ {
			name := "cache"
			if n > 1 {
				name = fmt.Sprintf("cache%d", i)
			}
			g := vk.NewGated(name, mem())
			w.gates = append(w.gates, g)
			stores = append(stores, storage.NewHybridStorageWithSharedCache(ctx, g, c19NoClose{Gated: sh, post: w.post}, pers, cfg()))
		}
	default:
		t.Fatalf("[setup failed] unknown store kind %s", kind)
	}
	for _, st := range stores {
		repo := repos.NewHTTPDomainMappingRepository(repos.NewRepository(st), c19Bases)
		reg := httpservice.NewDomainRegistry(c19Bases)
		sm := &c19SessMgr{}
		mod := NewDomainProxyModule(ctx, &httpservice.DomainProxyModuleConfig{
			Enabled: true, BaseDomains: c19Bases, CommandModeThreshold: 1 << 20, RequestTimeout: 2 * time.Second,
		})
		mod.SetDependencies(&httpservice.ModuleDependencies{HTTPDomainMappingRepo: repo, DomainRegistry: reg, SessionMgr: sm})
		w.nodes = append(w.nodes, &c19Node{repo: repo, mod: mod, reg: reg, sm: sm})
	}
	w.SetHook(nil)
	return w
}

func (w *c19World) SetHook(h vk.Hook) {
	for _, g := range w.gates {
		g.SetHook(h)
	}
}

func (w *c19World) Close() { w.cancel() }

func (w *c19World) node(i int) *c19Node { return w.nodes[i%len(w.nodes)] }

// ---------------------------------------------------------------- operations

type c19Op struct {
	No     int    `json:"no"`
	K      string `json:"k"` // create | delete | lookup | update | sweep (CleanupExpiredMappings)
	C      int64  `json:"c,omitempty"`
	Sub    string `json:"sub,omitempty"`
	Base   string `json:"base,omitempty"`
	Ref    int    `json:"ref"`            // delete/update: op number of the create whose id is used
	Upd    string `json:"upd,omitempty"`  // update: port | inactive | active | expired | past | future
	Host   string `json:"host,omitempty"` // lookup
	Node   int    `json:"node,omitempty"`
	ViaSrv bool   `json:"via_http,omitempty"` // lookup through ServeHTTP instead of lookupMapping
	HdrK   string `json:"header,omitempty"`       // lookup via ServeHTTP: an extra request header …
	HdrV   string `json:"header_value,omitempty"` // … naming some (other) host
	IDLit  string `json:"id_literal,omitempty"` // delete: a guessed mapping id (ids are sequential) instead of Ref
	Pin    bool   `json:"pin_node,omitempty"` // keep Node as given (default: node = thread index)
	Strict bool   `json:"strict,omitempty"`   // lookup judged by the state at its start: everything its own thread completed before it
}

func (o c19Op) full() string { return o.Sub + "." + o.Base }

type c19Res struct {
	Op      c19Op  `json:"op"`
	Ran     bool   `json:"ran"`
	OK      bool   `json:"ok"`
	Err     string `json:"err,omitempty"`
	ID      string `json:"id,omitempty"`
	Routed  bool   `json:"routed,omitempty"`
	RClient int64  `json:"r_client,omitempty"`
	RHost   string `json:"r_host,omitempty"`
	RPort   int    `json:"r_port,omitempty"`
	Status  int    `json:"http_status,omitempty"`
	Skipped string `json:"skipped,omitempty"`
	Faulted bool   `json:"fault_injected,omitempty"` // a storage operation of this call was made to fail (single fault)
	Gone    bool   `json:"mapping_gone,omitempty"` // update: the mapping record of the referenced claim does not exist
}

func c19TargetHost(c int64) string { return fmt.Sprintf("c%d.lan", c) }
func c19CreatePort(no int) int     { return 20000 + no%20000 }
func c19UpdatePort(no int) int     { return 42000 + no%20000 }

func c19Short(err error) string {
	if err == nil {
		return ""
	}
	s := err.Error()
	if len(s) > 160 {
		s = s[:160]
	}
	return s
}

// c19Exec runs one operation against the real code. prior holds the results of the
// operations executed so far (indexed by op number).
func c19Exec(w *c19World, op c19Op, prior []c19Res) c19Res {
	res := c19Res{Op: op, Ran: true}
	n := w.node(op.Node)
	ctx := context.Background()
	switch op.K {
	case "create":
		m, err := n.repo.CreateMapping(ctx, op.C, op.Sub, op.Base, c19TargetHost(op.C), c19CreatePort(op.No))
		if err != nil {
			res.Err = c19Short(err)
		} else {
			res.OK, res.ID = true, m.ID
		}
	case "delete":
		if op.IDLit != "" {
			res.ID = op.IDLit
			if err := n.repo.DeleteMapping(ctx, op.IDLit, op.C); err != nil {
				res.Err = c19Short(err)
			} else {
				res.OK = true
			}
			return res
		}
		ref := prior[op.Ref]
		if !ref.Ran || !ref.OK || ref.ID == "" {
			res.Ran, res.Skipped = false, "referenced create did not succeed"
			return res
		}
		res.ID = ref.ID
		if err := n.repo.DeleteMapping(ctx, ref.ID, op.C); err != nil {
			res.Err = c19Short(err)
		} else {
			res.OK = true
		}
	case "update":
		ref := prior[op.Ref]
		if !ref.Ran || !ref.OK || ref.ID == "" {
			res.Ran, res.Skipped = false, "referenced create did not succeed"
			return res
		}
		res.ID = ref.ID
		m, err := n.repo.GetMapping(ctx, ref.ID)
		if err != nil {
			res.Ran, res.Skipped = false, "mapping not readable: "+c19Short(err)
			res.Gone = coreerrors.IsCode(err, coreerrors.CodeMappingNotFound)
			return res
		}
		if m.FullDomain != ref.Op.full() || m.ClientID != ref.Op.C {
			// the record under this id is not the caller's (only after an id collision):
			// an update would not be the owner's update any more
			res.Ran, res.Skipped = false, "record under id belongs to another claim"
			return res
		}
		switch op.Upd {
		case "port":
			m.TargetPort = c19UpdatePort(op.No)
		case "inactive":
			m.Status = repos.HTTPDomainMappingStatusInactive
		case "expired":
			m.Status = repos.HTTPDomainMappingStatusExpired
		case "active":
			m.Status = repos.HTTPDomainMappingStatusActive
		case "past":
			m.ExpiresAt = time.Now().Unix() - 7200
		case "future":
			m.ExpiresAt = time.Now().Unix() + 7200
		}
		if err := n.repo.UpdateMapping(ctx, m); err != nil {
			res.Err = c19Short(err)
		} else {
			res.OK = true
		}
	case "sweep":
		if _, err := n.repo.CleanupExpiredMappings(ctx); err != nil {
			res.Err = c19Short(err)
		} else {
			res.OK = true
		}
	case "lookup":
		if op.ViaSrv {
			req := httptest.NewRequest("GET", "http://placeholder.invalid/p?q=1", nil)
			req.Host = op.Host
			if op.HdrK != "" {
				req.Header.Set(op.HdrK, op.HdrV)
			}
			rec := httptest.NewRecorder()
			n.sm.take()
			n.mod.ServeHTTP(rec, req)
			res.Status = rec.Code
			if r := n.sm.take(); r != nil {
				res.Routed, res.RClient = true, r.Client
				if u, err := url.Parse(r.URL); err == nil {
					res.RHost = u.Hostname()
					res.RPort, _ = strconv.Atoi(u.Port())
				} else {
					res.RHost = r.URL
				}
			} else if rec.Code == http.StatusOK {
				res.Err = "200 without a proxied request"
			}
			res.OK = true
			return res
		}
		pm, err := n.mod.lookupMapping(op.Host)
		res.OK = true
		if err != nil {
			res.Err = c19Short(err)
		} else if pm != nil {
			res.Routed, res.RClient, res.RHost, res.RPort = true, pm.TargetClientID, pm.TargetHost, pm.TargetPort
		}
	}
	return res
}

// ---------------------------------------------------------------- truth from the history

type c19Claim struct {
	No      int    `json:"create_op"`
	Client  int64  `json:"client"`
	Name    string `json:"name"`
	ID      string `json:"id"`
	Host    string `json:"target_host"`
	Port    int    `json:"target_port"`
	Deleted bool   `json:"deleted"`
	Active  bool   `json:"active"`
	Expired bool   `json:"expired"`
	// StatusExpired: status set to "expired" by its owner; MaybeGone: an expiry sweep ran
	// while the claim was expired (by time or status) — the sweep MAY have removed it
	StatusExpired bool `json:"status_expired,omitempty"`
	MaybeGone     bool `json:"maybe_swept,omitempty"`
}

type c19Truth struct {
	claims  []*c19Claim
	live    map[string][]*c19Claim // name -> live claims
	dupIDs  []string               // ids handed to more than one successful create
	touched map[string]bool        // names that ever had a successful claim
}

// c19Audit derives the owner table from results in execution order (sequential
// histories) or in any order (quiescent state after a concurrent run: deletes only
// reference creates that happened before them).
func c19Audit(results []c19Res) *c19Truth {
	tr := &c19Truth{live: map[string][]*c19Claim{}, touched: map[string]bool{}}
	byNo := map[int]*c19Claim{}
	idCount := map[string]int{}
	for _, r := range results {
		if r.Ran && r.Op.K == "delete" && r.Op.IDLit != "" {
			// delete by guessed id: an owner's delete iff that id was handed to this very
			// client by an earlier successful claim
			if r.OK {
				for _, c := range tr.claims {
					if c.ID == r.ID && c.Client == r.Op.C && c.No < r.Op.No {
						c.Deleted = true
					}
				}
			}
			continue
		}
		if r.Ran && r.Faulted && r.Op.K == "delete" {
			// an owner's delete hit by a storage fault may have been applied partly or not
			// at all, whatever it returned: either outcome is accepted from here on
			if c := byNo[r.Op.Ref]; c != nil && r.Op.C == c.Client && !c.Deleted {
				c.MaybeGone = true
			}
			continue
		}
		if !r.Ran || !r.OK {
			continue
		}
		switch r.Op.K {
		case "create":
			c := &c19Claim{No: r.Op.No, Client: r.Op.C, Name: r.Op.full(), ID: r.ID,
				Host: c19TargetHost(r.Op.C), Port: c19CreatePort(r.Op.No), Active: true}
			tr.claims = append(tr.claims, c)
			byNo[c.No] = c
			idCount[c.ID]++
			tr.touched[c.Name] = true
		case "delete":
			if c := byNo[r.Op.Ref]; c != nil && r.Op.C == c.Client {
				c.Deleted = true
			}
		case "update":
			c := byNo[r.Op.Ref]
			if c == nil {
				continue
			}
			if !r.Faulted {
				c.MaybeGone = false // the record was there to be updated
			}
			switch r.Op.Upd {
			case "port":
				c.Port = c19UpdatePort(r.Op.No)
			case "inactive":
				c.Active, c.StatusExpired = false, false
			case "expired":
				c.Active, c.StatusExpired = false, true
			case "active":
				c.Active, c.StatusExpired = true, false
			case "past":
				c.Expired = true
			case "future":
				c.Expired = false
			}
		case "sweep":
			// the expiry sweep may remove expired mappings — only those
			for _, c := range tr.claims {
				if !c.Deleted && (c.Expired || c.StatusExpired) {
					c.MaybeGone = true
				}
			}
		}
	}
	// a possibly swept claim whose name was successfully claimed again WAS swept
	for _, c := range tr.claims {
		if c.MaybeGone && !c.Deleted {
			for _, c2 := range tr.claims {
				if c2 != c && c2.Name == c.Name && c2.No > c.No {
					c.Deleted = true
				}
			}
		}
	}
	for _, c := range tr.claims {
		if !c.Deleted {
			tr.live[c.Name] = append(tr.live[c.Name], c)
		}
	}
	for id, n := range idCount {
		if n > 1 {
			tr.dupIDs = append(tr.dupIDs, id)
		}
	}
	sort.Strings(tr.dupIDs)
	return tr
}

// definite returns the live claims of name that no sweep may have removed.
func (tr *c19Truth) definite(name string) []*c19Claim {
	var out []*c19Claim
	for _, c := range tr.live[name] {
		if !c.MaybeGone {
			out = append(out, c)
		}
	}
	return out
}

// maybe reports whether name has a live claim that a sweep may have removed.
func (tr *c19Truth) maybe(name string) bool {
	for _, c := range tr.live[name] {
		if c.MaybeGone {
			return true
		}
	}
	return false
}

// c19ExactReadings lists the verbatim names a Host header spells (port stripped).
func c19ExactReadings(host string) []string {
	out := []string{host}
	if i := strings.LastIndexByte(host, ':'); i >= 0 {
		out = append(out, host[:i])
	}
	if i := strings.IndexByte(host, ':'); i >= 0 && host[:i] != out[len(out)-1] {
		out = append(out, host[:i])
	}
	return out
}

// c19Readings lists the names a Host header may be read as (most lenient reading).
func c19Readings(host string) []string {
	seen := map[string]bool{}
	var out []string
	add := func(s string) {
		for _, v := range []string{s, strings.TrimSuffix(s, ".")} {
			if !seen[v] {
				seen[v] = true
				out = append(out, v)
			}
		}
	}
	h := strings.ToLower(strings.TrimSpace(host))
	add(h)
	if i := strings.LastIndexByte(h, ':'); i >= 0 {
		add(h[:i])
	}
	if i := strings.IndexByte(h, ':'); i >= 0 {
		add(h[:i])
	}
	return out
}

// c19JudgeRoute decides one routing answer at a quiescent point. It returns "" when
// the answer is acceptable, else the violation class.
func c19JudgeRoute(tr *c19Truth, r c19Res) (class string, expect any) {
	if !r.Routed {
		return "", nil
	}
	// names are claimed verbatim (case-sensitive): a live claim spelled exactly like the
	// Host (port stripped) takes precedence; only without one the lenient,
	// case-insensitive / trailing-dot reading applies
	var cands []*c19Claim
	double := false
	for _, name := range c19ExactReadings(r.Op.Host) {
		l := tr.live[name]
		if len(l) > 1 {
			double = true
		}
		cands = append(cands, l...)
	}
	lenient := map[string]bool{}
	for _, name := range c19Readings(r.Op.Host) {
		lenient[name] = true
	}
	if len(cands) == 0 && !double {
		for name, l := range tr.live {
			if lenient[strings.ToLower(name)] {
				if len(l) > 1 {
					double = true
				}
				cands = append(cands, l...)
			}
		}
	}
	if double {
		return "", nil // R1 is reported separately; no single owner to compare with
	}
	if len(cands) == 0 {
		for name := range tr.touched {
			if lenient[strings.ToLower(name)] {
				return "routes-after-delete", nil
			}
		}
		return "routes-unclaimed-host", nil
	}
	for _, c := range cands {
		if c.Client == r.RClient && c.Host == r.RHost && c.Port == r.RPort {
			if !c.Active || c.Expired {
				return "inactive-or-expired-routes", c
			}
			return "", nil
		}
	}
	for _, c := range cands {
		if c.Client == r.RClient {
			return "wrong-target", cands
		}
	}
	return "misroute-other-client", cands
}

// c19JudgeInflight decides a lookup that ran concurrently with claims/deletes: it
// may reflect any claim ever attempted on a name it spells, nothing else.
func c19JudgeInflight(all []c19Op, r c19Res) string {
	if !r.Routed {
		return ""
	}
	names := map[string]bool{}
	for _, n := range c19Readings(r.Op.Host) {
		names[n] = true
	}
	byNo := map[int]c19Op{}
	for _, o := range all {
		byNo[o.No] = o
	}
	for _, o := range all {
		if o.K == "create" && names[strings.ToLower(o.full())] && o.C == r.RClient && c19TargetHost(o.C) == r.RHost && c19CreatePort(o.No) == r.RPort {
			return ""
		}
		// or the target its owner was moving it to
		if o.K == "update" && o.Upd == "port" {
			if c, ok := byNo[o.Ref]; ok && c.K == "create" && names[strings.ToLower(c.full())] && c.C == r.RClient && c19TargetHost(c.C) == r.RHost && c19UpdatePort(o.No) == r.RPort {
				return ""
			}
		}
	}
	return "misroute-inflight"
}

func c19Sig(class, family, kind string, tr *c19Truth) string {
	if tr != nil && len(tr.dupIDs) > 0 {
		// every consequence of an id collision is one defect class
		return "C19:dup-mapping-id|store=" + kind
	}
	if class == "double-owner" && tr != nil {
		// a name with a live claim AND an older, owner-deleted claim: the index of the
		// newer claim can only have vanished through a delete of the older mapping
		for name, l := range tr.live {
			if len(l) == 0 {
				continue
			}
			for _, c := range tr.claims {
				if c.Name == name && c.Deleted {
					return "C19:late-delete-removed-new-owner|store=" + kind
				}
			}
		}
	}
	if strings.HasPrefix(family, "host=") {
		return "C19:" + class + "|" + family
	}
	// the scenario family is part of the witness, not of the signature
	return "C19:" + class + "|store=" + kind
}
