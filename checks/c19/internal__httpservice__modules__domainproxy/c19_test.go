//go:build verif && verif_c19

package domainproxy

import (
	"fmt"
	"math/rand"
	"sort"
	"strings"
	"testing"
	"time"

	"tunnox-core/internal/cloud/models"
	vk "tunnox-core/internal/verifkit"
)

// ---------------------------------------------------------------- scenarios

type c19Scenario struct {
	Family  string    `json:"family"`
	Kind    string    `json:"store"`
	Setup   []c19Op   `json:"setup"`
	Threads [][]c19Op `json:"threads"`
	nops    int
}

func (sc *c19Scenario) number() {
	n := 0
	for i := range sc.Setup {
		sc.Setup[i].No = n
		n++
	}
	for t := range sc.Threads {
		for i := range sc.Threads[t] {
			sc.Threads[t][i].No = n
			n++
		}
	}
	sc.nops = n
}

func (sc *c19Scenario) allOps() []c19Op {
	var out []c19Op
	out = append(out, sc.Setup...)
	for _, t := range sc.Threads {
		out = append(out, t...)
	}
	return out
}

func c19Create(c int64, sub, base string) c19Op { return c19Op{K: "create", C: c, Sub: sub, Base: base} }
func c19Delete(c int64, ref int) c19Op           { return c19Op{K: "delete", C: c, Ref: ref} }
func c19Lookup(host string) c19Op                { return c19Op{K: "lookup", Host: host} }

// c19Families builds the fixed scenario families. Delete references are op numbers:
// setup ops are numbered first, then thread ops in thread order.
func c19Family(name string, r *rand.Rand, thorough bool) *c19Scenario {
	b0, b1 := c19Bases[0], c19Bases[r.Intn(2)]
	sc := &c19Scenario{Family: name}
	switch name {
	case "same-name":
		k := 2 + r.Intn(2)
		if thorough && r.Intn(3) == 0 {
			k = 4
		}
		for i := 0; i < k; i++ {
			sc.Threads = append(sc.Threads, []c19Op{c19Create(int64(101+i), "app", b0)})
		}
		if r.Intn(2) == 0 {
			sc.Threads = append(sc.Threads, []c19Op{c19Lookup("app." + b0), c19Lookup("APP." + b0 + ":80")})
		}
	case "diff-names":
		k := 2 + r.Intn(2)
		for i := 0; i < k; i++ {
			base := b0
			if i == 1 {
				base = b1
			}
			sc.Threads = append(sc.Threads, []c19Op{c19Create(int64(101+i), fmt.Sprintf("svc%d", i), base)})
		}
		if r.Intn(3) == 0 {
			sc.Threads = append(sc.Threads, []c19Op{c19Lookup("svc0." + b0), c19Lookup("svc1." + b1 + ":8080")})
		}
	case "same-client-two-names":
		sc.Threads = [][]c19Op{{c19Create(101, "blog", b0)}, {c19Create(101, "shop", b1)}}
	case "create-delete-lookup":
		sc.Setup = []c19Op{c19Create(101, "app", b0)}
		sc.Threads = [][]c19Op{
			{c19Delete(101, 0)},
			{c19Create(102, "app", b0)},
			{c19Lookup("app." + b0), c19Lookup("app." + b0 + ":443")},
		}
		if r.Intn(2) == 0 {
			sc.Threads = append(sc.Threads, []c19Op{c19Create(103, "other", b1)})
		}
	case "double-delete-reclaim":
		sc.Setup = []c19Op{c19Create(101, "app", b0)}
		sc.Threads = [][]c19Op{
			{c19Delete(101, 0)}, // the late (retried / cleanup) delete
			{c19Delete(101, 0)},
			{c19Create(102, "app", b0)},
		}
	case "nonowner-delete":
		sc.Setup = []c19Op{c19Create(101, "app", b0)}
		sc.Threads = [][]c19Op{
			{c19Delete(102, 0)},
			{c19Create(102, "app", b0)},
			{c19Lookup("app." + b0 + ":80")},
		}
	case "delete-reclaim-chain":
		sc.Setup = []c19Op{c19Create(101, "app", b0)}
		sc.Threads = [][]c19Op{
			{c19Delete(101, 0), c19Create(101, "app", b0)},
			{c19Create(102, "app", b0)},
		}
	case "update-vs-delete", "update-vs-delete-vs-claim":
		// the owner renews / edits its mapping (what the create command itself does for
		// the TTL) while its own delete runs; a deleted name must not come back
		upd := []string{"future", "port"}[r.Intn(2)]
		sc.Setup = []c19Op{c19Create(101, "app", b0)}
		sc.Threads = [][]c19Op{
			{{K: "update", C: 101, Ref: 0, Upd: upd}},
			{c19Delete(101, 0)},
		}
		if name == "update-vs-delete-vs-claim" {
			sc.Threads = append(sc.Threads, []c19Op{c19Create(103, "app", b0)})
		} else if r.Intn(2) == 0 {
			sc.Threads = append(sc.Threads, []c19Op{c19Lookup("app." + b0 + ":80")})
		}
	case "refused-claim-delete-reclaim":
		// two clients claim one name at once; the second one then sends ordinary deletes
		// for the (sequential, predictable) ids around the one its attempt consumed and
		// claims again. Whoever won keeps the name; single owner.
		sc.Threads = [][]c19Op{
			{c19Create(101, "app", b0)},
			{c19Create(102, "app", b0),
				{K: "delete", C: 102, IDLit: "hdm_2"}, {K: "delete", C: 102, IDLit: "hdm_1"}, {K: "delete", C: 102, IDLit: "hdm_3"},
				c19Create(102, "app", b0)},
		}
		if r.Intn(2) == 0 {
			sc.Setup = []c19Op{c19Create(103, "api", b1)}
			sc.Threads[1][1].IDLit, sc.Threads[1][2].IDLit, sc.Threads[1][3].IDLit = "hdm_3", "hdm_2", "hdm_4"
		}
	case "stale-read":
		// lookup1 on node 0 is held inside its record read; the owner deactivates /
		// re-targets / deletes the mapping through node 1 and gets the acknowledgement;
		// only then lookup2 starts on node 0 — it must see the acknowledged state
		upd := []c19Op{
			{K: "update", C: 101, Ref: 0, Upd: "inactive", Node: 1, Pin: true},
			{K: "update", C: 101, Ref: 0, Upd: "port", Node: 1, Pin: true},
			{K: "delete", C: 101, Ref: 0, Node: 1, Pin: true},
			{K: "update", C: 101, Ref: 0, Upd: "past", Node: 1, Pin: true},
		}[r.Intn(4)]
		host := "app." + b0
		sc.Setup = []c19Op{c19Create(101, "app", b0)}
		sc.Threads = [][]c19Op{
			{{K: "lookup", Host: host, Node: 0, Pin: true}},
			{upd, {K: "lookup", Host: host + ":80", Node: 0, Pin: true, Strict: true}},
		}
	case "sweep-vs-claims":
		// the production expiry sweep runs while other clients try to take a paused
		// (inactive, unexpired) name, an expired name and an active name
		sc.Setup = []c19Op{
			c19Create(101, "paused", b0), {K: "update", C: 101, Ref: 0, Upd: "inactive"},
			c19Create(102, "lapsed", b0), {K: "update", C: 102, Ref: 2, Upd: "past"},
			c19Create(103, "app", b0),
		}
		sc.Threads = [][]c19Op{
			{{K: "sweep"}},
			{c19Create(104, "paused", b0), c19Create(104, "lapsed", b0)},
			{c19Lookup("paused." + b0), c19Lookup("app." + b0 + ":80")},
		}
		if r.Intn(2) == 0 {
			sc.Threads = append(sc.Threads, []c19Op{c19Create(105, "app", b0), {K: "sweep"}})
		}
	case "random":
		subs := []string{"app", "api"}
		nSetup := r.Intn(3)
		for i := 0; i < nSetup; i++ {
			sc.Setup = append(sc.Setup, c19Create(int64(101+r.Intn(3)), subs[r.Intn(2)], b0))
		}
		nt := 2 + r.Intn(3)
		no := nSetup
		for t := 0; t < nt; t++ {
			var th []c19Op
			var mine []int // creates of this thread (op numbers)
			for i, n := 0, 1+r.Intn(2); i < n; i++ {
				c := int64(101 + r.Intn(3))
				switch x := r.Intn(10); {
				case x < 5:
					th = append(th, c19Create(c, subs[r.Intn(2)], b0))
					mine = append(mine, no)
				case x < 8 && (nSetup > 0 || len(mine) > 0):
					ref := 0
					if len(mine) > 0 && (nSetup == 0 || r.Intn(2) == 0) {
						ref = mine[r.Intn(len(mine))]
					} else {
						ref = r.Intn(nSetup)
					}
					th = append(th, c19Delete(c, ref))
				default:
					h := subs[r.Intn(2)] + "." + b0
					if r.Intn(2) == 0 {
						h += ":80"
					}
					th = append(th, c19Lookup(h))
				}
				no++
			}
			sc.Threads = append(sc.Threads, th)
		}
	}
	sc.number()
	return sc
}

// delete ops in "random" may reference a setup create made by another client: fix
// the client so that roughly half of them are owner deletes.
func c19FixRandomDeletes(sc *c19Scenario, r *rand.Rand) {
	all := sc.allOps()
	for t := range sc.Threads {
		for i := range sc.Threads[t] {
			op := &sc.Threads[t][i]
			if op.K == "delete" && r.Intn(2) == 0 {
				op.C = all[op.Ref].C
			}
		}
	}
}

// ---------------------------------------------------------------- choosers

// c19Sticky keeps running the current thread with probability 1-p and switches to a
// uniformly chosen other thread with probability p (few, well spread preemptions).
type c19Sticky struct {
	R *rand.Rand
	P float64
}

func (c c19Sticky) Choose(enabled []string, _ []string, cur int) int {
	if cur >= 0 && c.R.Float64() >= c.P {
		return cur
	}
	return c.R.Intn(len(enabled))
}

// c19Pause is the directed one-pause shape: thread First is released K times (K-1 of
// its storage operations execute), then every other thread runs to completion in the
// order Rest, then First resumes. Enumerated over First × K × {creation order,
// reverse}; it contains the minimal witnesses of "read … other clients act … write".
type c19Pause struct {
	First     string
	K         int
	Rest      []string
	n         int
	Exhausted bool // First finished before it was released K times
}

func (c *c19Pause) Choose(enabled []string, _ []string, _ int) int {
	idx := func(name string) int {
		for i, e := range enabled {
			if e == name {
				return i
			}
		}
		return -1
	}
	if c.n < c.K {
		if i := idx(c.First); i >= 0 {
			c.n++
			return i
		}
		c.Exhausted = true
	}
	for _, name := range c.Rest {
		if i := idx(name); i >= 0 {
			return i
		}
	}
	if i := idx(c.First); i >= 0 {
		return i
	}
	return 0
}

// ---------------------------------------------------------------- trace analysis

// c19Windows reports (a) whether two claims overlapped between their id draw and their
// index SetNX, (b) whether a second claim read the id counter between the read and
// the write-back of the first (the hybrid Incr window).
func c19Windows(trace []string) (overlap, incrSplit bool) {
	type win struct{ s, e int }
	wins := map[string][]win{}
	open := map[string]int{}
	counterRead := map[string]int{} // thread -> position of an unmatched counter read
	for i, e := range trace {
		at := strings.IndexByte(e, '@')
		if at < 0 {
			continue
		}
		th, pt := e[:at], e[at+1:]
		isCounter := strings.HasSuffix(pt, "tunnox:http_domain:next_id")
		switch {
		case isCounter && (strings.Contains(pt, ".Incr:") || strings.Contains(pt, ".IncrBy:") || strings.Contains(pt, ".Get:")):
			if _, ok := open[th]; !ok {
				open[th] = i
			}
			if strings.Contains(pt, ".Get:") {
				for other := range counterRead {
					if other != th {
						incrSplit = true
					}
				}
				counterRead[th] = i
			}
		case isCounter && strings.Contains(pt, ".Set:"):
			delete(counterRead, th)
		case strings.Contains(pt, ".SetNX:"):
			if s, ok := open[th]; ok {
				wins[th] = append(wins[th], win{s, i})
				delete(open, th)
			}
		}
	}
	for a, wa := range wins {
		for b, wb := range wins {
			if a >= b {
				continue
			}
			for _, x := range wa {
				for _, y := range wb {
					if x.s < y.e && y.s < x.e {
						overlap = true
					}
				}
			}
		}
	}
	return
}

// ---------------------------------------------------------------- one scheduled execution

type c19Exe struct {
	run   *vk.Run
	t     *testing.T
	rd    *c19Redis
	stop  bool
	fresh int64 // next fresh client id for follow-up claims
}

// c19RunSchedule executes sc under scheduler s and judges the quiescent state.
func (x *c19Exe) start(sc *c19Scenario, s *vk.Sched) (after func(ok bool)) {
	staleRead := sc.Family == "stale-read"
	w := c19NewWorld(x.t, sc.Kind, x.rd, c19WorldOpts{postRead: staleRead})
	results := make([]c19Res, sc.nops)
	for _, op := range sc.Setup {
		if !op.Pin {
			op.Node = 0
		}
		results[op.No] = c19Exec(w, op, results)
	}
	w.SetHook(vk.SchedHook(s))
	if staleRead {
		// a read of the shared tier that has sampled its value but not returned yet
		w.SetPostHook(func(op, key string) { s.Yield("redis." + op + ":" + key) })
	}
	for ti, th := range sc.Threads {
		th, ti := th, ti
		s.Go(fmt.Sprintf("T%d", ti), func() {
			for _, op := range th {
				if !op.Pin {
					op.Node = ti
				}
				results[op.No] = c19Exec(w, op, results)
			}
		})
	}
	return func(ok bool) {
		defer w.Close()
		w.SetHook(nil)
		w.SetPostHook(nil)
		x.run.Eval(1)
		trace := s.Trace()
		// a thread judged "blocked off-gate" makes a schedule inconclusive — except in
		// the stale-read family, where a lookup waiting for another lookup's read is
		// exactly what is looked for and every thread still ran to completion (ok)
		if !ok || (s.Stalls() > 0 && !staleRead) {
			x.run.Count("sched_inconclusive", 1)
			return
		}
		x.run.Count("schedules", 1)
		x.run.Count("schedules_"+sc.Kind, 1)
		x.run.Distinct(sc.Family + "|" + sc.Kind + "|" + s.Fingerprint())
		ov, split := c19Windows(trace)
		if ov {
			x.run.Count("claims_overlap_incr_setnx", 1)
		}
		if split {
			x.run.Count("claims_split_counter_read_write", 1)
		}
		if staleRead {
			x.run.Count("stale_read_schedules", 1)
			if c19StaleWindow(trace) {
				x.run.Count("stale_read_windows", 1)
			}
		}
		x.judgeStrict(sc, results, trace)
		x.judge(sc, w, results, trace)
	}
}

// c19StaleWindow: the first lookup (T0) sampled the mapping record BEFORE the update
// of T1 was written and returned from that read only AFTER T1's later lookup started.
func c19StaleWindow(trace []string) bool {
	iRead, iRet, iSet, iL2 := -1, -1, -1, -1
	for i, e := range trace {
		switch {
		case strings.HasPrefix(e, "T0@redis.Get:tunnox:http_domain:mapping:") && iRead < 0:
			iRead = i // released: the read executes now, then parks at Get.ret
		case strings.HasPrefix(e, "T0@redis.Get.ret:tunnox:http_domain:mapping:") && iRet < 0:
			iRet = i // released from the after-read gate: the value reaches the caller
		case strings.HasPrefix(e, "T1@redis.Set:tunnox:http_domain:mapping:"):
			iSet = i
		case strings.HasPrefix(e, "T1@redis.Get:tunnox:http_domain:index:") && iSet >= 0 && iL2 < 0:
			iL2 = i
		}
	}
	return iRead >= 0 && iSet > iRead && iL2 > iSet && iRet > iL2
}

// judgeStrict: a lookup marked Strict is judged by the state at its start, which is
// fully determined by what its own thread completed before it (interval rule: those
// calls had RETURNED) — the scenario has no other writer.
func (x *c19Exe) judgeStrict(sc *c19Scenario, results []c19Res, trace []string) {
	for _, th := range sc.Threads {
		prefix := append([]c19Res(nil), results[:len(sc.Setup)]...)
		for _, op := range th {
			r := results[op.No]
			if op.K == "lookup" && op.Strict && r.Ran {
				tr := c19Audit(prefix)
				x.run.Count("strict_lookups", 1)
				if r.Routed {
					x.run.Count("strict_lookups_routed", 1)
				}
				if class, exp := c19JudgeRoute(tr, r); class != "" {
					x.violation(class, sc, tr, trace, results, map[string]any{"phase": "lookup started after its thread's earlier calls returned", "lookup": r, "expected_owner": exp})
				}
			}
			prefix = append(prefix, r)
		}
	}
}

func (x *c19Exe) violation(class string, sc *c19Scenario, tr *c19Truth, trace []string, results []c19Res, extra map[string]any) {
	sig := c19Sig(class, sc.Family, sc.Kind, tr)
	d := map[string]any{"class": class, "scenario": sc, "schedule": trace, "results": results, "dup_ids": tr.dupIDs}
	for k, v := range extra {
		d[k] = v
	}
	x.run.Violation(sig, d)
	if x.run.Violations() >= 20 {
		x.stop = true
	}
}

func (x *c19Exe) judge(sc *c19Scenario, w *c19World, results []c19Res, trace []string) {
	all := sc.allOps()
	tr := c19Audit(results)
	if len(tr.dupIDs) > 0 {
		x.run.Count("dup_ids_observed", 1)
	}
	creates := 0
	for _, r := range results {
		if r.Op.K == "create" && r.OK {
			creates++
		}
	}
	if creates > 0 {
		x.run.Count("schedules_with_successful_claim", 1)
	}

	// in-flight lookups
	for _, r := range results {
		if r.Ran && r.Op.K == "lookup" {
			x.run.Count("lookups_inflight", 1)
			if r.Routed {
				x.run.Count("lookups_inflight_routed", 1)
			}
			if c := c19JudgeInflight(all, r); c != "" {
				x.violation(c, sc, tr, trace, results, map[string]any{"lookup": r})
			}
		}
	}
	// R1 at quiescence
	for name, l := range tr.live {
		if len(l) > 1 {
			x.violation("double-owner", sc, tr, trace, results, map[string]any{"name": name, "live_claims": l})
		}
	}
	// R3 non-owner delete
	x.judgeNonOwnerDeletes(sc, tr, results, trace)
	// R2 at quiescence, every node
	names := map[string]bool{"never-claimed." + c19Bases[0]: true}
	for _, o := range all {
		if o.K == "create" {
			names[o.full()] = true
		}
	}
	x.judgeRouting(sc, w, tr, names, results, trace, "quiescent")

	// R1/R4 follow-up: a fresh client claims every name; must succeed iff no live claim
	follow := append([]c19Res(nil), results...)
	no := len(follow)
	for _, name := range c19SortedKeys(names) {
		if !tr.touched[name] {
			continue
		}
		i := strings.IndexByte(name, '.')
		x.fresh++
		op := c19Op{No: no, K: "create", C: 900 + x.fresh%50, Sub: name[:i], Base: name[i+1:], Node: int(x.fresh % 2)}
		r := c19Exec(w, op, follow)
		follow = append(follow, r)
		no++
		x.run.Count("followup_claims", 1)
		def := tr.definite(name)
		live := len(def)
		switch {
		case tr.maybe(name):
			// an expired claim that a sweep may or may not have removed: both outcomes fine
			x.run.Count("followup_claim_on_maybe_swept_name", 1)
		case live == 1 && r.OK:
			x.run.Count("followup_claim_on_owned_name_succeeded", 1)
			x.violation("double-owner", sc, tr, trace, follow, map[string]any{"name": name, "owner": def[0], "second_claim": r})
		case live == 0 && !r.OK:
			x.violation("not-reclaimable", sc, tr, trace, follow, map[string]any{"name": name, "claim": r})
		case live == 0 && r.OK:
			x.run.Count("followup_reclaims_ok", 1)
		case live == 1 && !r.OK:
			x.run.Count("followup_claim_on_owned_name_refused", 1)
			if !def[0].Active && !def[0].Expired {
				x.run.Count("followup_claim_on_paused_name_refused", 1)
			}
		}
	}
	tr2 := c19Audit(follow)
	// owners delete everything that is singly owned; names must stop routing
	for _, name := range c19SortedKeys(names) {
		l := tr2.live[name]
		if len(l) != 1 {
			continue
		}
		op := c19Op{No: no, K: "delete", C: l[0].Client, Ref: l[0].No}
		r := c19Exec(w, op, follow)
		follow = append(follow, r)
		no++
	}
	tr3 := c19Audit(follow)
	x.judgeRouting(sc, w, tr3, names, follow, trace, "after-owner-deletes")
}

func (x *c19Exe) judgeNonOwnerDeletes(sc *c19Scenario, tr *c19Truth, results []c19Res, trace []string) {
	holders := map[string]map[int64]bool{}
	ownerDeleted := map[string]bool{}
	for _, c := range tr.claims {
		if holders[c.ID] == nil {
			holders[c.ID] = map[int64]bool{}
		}
		holders[c.ID][c.Client] = true
		if c.Deleted || c.MaybeGone {
			ownerDeleted[c.ID] = true // removed by its owner, or (possibly) by the expiry sweep
		}
	}
	for _, r := range results {
		if !r.Ran || r.Op.K != "delete" {
			continue
		}
		if holders[r.ID][r.Op.C] {
			x.run.Count("owner_deletes", 1)
			continue
		}
		if r.Op.IDLit != "" && len(holders[r.ID]) > 0 {
			// guessed id that belongs to somebody else's claim: that claim may still have
			// been in flight (its create had not returned), in which case "not found →
			// nil" is legitimate; only the EFFECT is judged (the owner keeps the name)
			x.run.Count("guessed_deletes_of_foreign_ids", 1)
			if !r.OK {
				x.run.Count("nonowner_deletes_refused", 1)
			}
			continue
		}
		if len(holders[r.ID]) == 0 {
			// an id nobody was ever handed (guessed / consumed by a refused claim): the
			// reply carries no obligation, the EFFECT is judged (nothing may change)
			x.run.Count("deletes_of_unowned_ids", 1)
			continue
		}
		x.run.Count("nonowner_deletes", 1)
		if r.Faulted {
			// the result of a call hit by a storage fault carries no obligation; its
			// EFFECT is still judged (the owner must keep the name)
			x.run.Count("nonowner_deletes_faulted", 1)
			continue
		}
		if r.OK && !ownerDeleted[r.ID] {
			x.violation("non-owner-delete-succeeded", sc, tr, trace, results, map[string]any{"delete": r})
		} else if !r.OK {
			x.run.Count("nonowner_deletes_refused", 1)
		}
	}
}

func c19SortedKeys(m map[string]bool) []string {
	out := make([]string, 0, len(m))
	for k := range m {
		out = append(out, k)
	}
	sort.Strings(out)
	return out
}

func (x *c19Exe) judgeRouting(sc *c19Scenario, w *c19World, tr *c19Truth, names map[string]bool, results []c19Res, trace []string, phase string) {
	for _, name := range c19SortedKeys(names) {
		for ni := range w.nodes {
			for i, h := range []string{name, name + ":8080"} {
				op := c19Op{K: "lookup", Host: h, Node: ni, ViaSrv: i == 1}
				r := c19Exec(w, op, nil)
				x.run.Count("lookups_quiescent", 1)
				if r.Routed {
					x.run.Count("lookups_quiescent_routed", 1)
				}
				if class, exp := c19JudgeRoute(tr, r); class != "" {
					x.violation(class, sc, tr, trace, results, map[string]any{"phase": phase, "lookup": r, "expected_owner": exp})
				}
			}
		}
	}
}

// ---------------------------------------------------------------- monitor 1: schedules

func TestVerifC19Schedules(t *testing.T) {
	vk.Quiet()
	run := vk.Start(t, "C19", "schedules")
	defer run.Finish()
	run.Rule("scenario families (same name / different names / create∥delete∥lookup / double delete∥re-claim / non-owner delete / random) × store kinds (memory, hybrid(memory), hybrid(memory+redis), two hybrid nodes on one redis); every storage-tier operation is a scheduling point; schedules = all with ≤2 preemptions (bounded) + seeded random/sticky choosers; distinct = family|store|schedule fingerprint of a schedule that ran to quiescence")
	rd := c19StartRedis(t)
	x := &c19Exe{run: run, t: t, rd: rd}
	rnd := run.Rand("families")
	thorough := run.Thorough()

	families := []string{"same-name", "diff-names", "same-client-two-names", "create-delete-lookup", "double-delete-reclaim", "nonowner-delete", "delete-reclaim-chain", "update-vs-delete", "update-vs-delete-vs-claim", "refused-claim-delete-reclaim", "sweep-vs-claims", "random"}
	exploreRuns := run.Pick(12, 1500)
	randomRuns := run.Pick(12, 700)
	const maxSteps = 600

	explore := map[string]any{}
	defer func() { run.Observe("explore", explore) }()
	for _, fam := range families {
		for _, kind := range c19Kinds {
			if x.stop {
				break
			}
			// (0) directed one-pause schedules of one instance of the family
			{
				sc := c19Family(fam, rnd, thorough)
				if fam == "random" {
					c19FixRandomDeletes(sc, rnd)
				}
				sc.Kind = kind
				nt := len(sc.Threads)
				for first := 0; first < nt && !x.stop; first++ {
					for dir := 0; dir < 2; dir++ {
						var rest []string
						for j := 0; j < nt; j++ {
							o := j
							if dir == 1 {
								o = nt - 1 - j
							}
							if o != first {
								rest = append(rest, fmt.Sprintf("T%d", o))
							}
						}
						if dir == 1 && len(rest) < 2 {
							continue
						}
						for k := 1; k <= 24 && !x.stop; k++ {
							ch := &c19Pause{First: fmt.Sprintf("T%d", first), K: k, Rest: rest}
							s := vk.NewSched(ch)
							after := x.start(sc, s)
							ok := s.Run(maxSteps)
							s.Stop()
							after(ok)
							run.Count("pause_schedules", 1)
							if ch.Exhausted {
								break
							}
						}
					}
				}
			}
			// (1) bounded-preemption enumeration of one instance of the family
			sc := c19Family(fam, rnd, thorough)
			if fam == "random" {
				c19FixRandomDeletes(sc, rnd)
			}
			sc.Kind = kind
			run.Case(fam+"|"+kind, sc)
			run.Sample(sc)
			st := vk.Explore(2, exploreRuns, maxSteps, func(s *vk.Sched) func(bool) {
				if x.stop {
					return nil
				}
				return x.start(sc, s)
			})
			run.Count("explore_runs", int64(st.Runs))
			explore[fam+"|"+kind] = map[string]any{"runs": st.Runs, "distinct": st.Distinct, "complete": st.Complete, "max_depth": st.MaxDepth}
			if st.Complete {
				run.Count("explore_complete_spaces", 1)
			}
			// (2) seeded random and sticky schedules over fresh instances
			for i := 0; i < randomRuns && !x.stop; i++ {
				sc := c19Family(fam, rnd, thorough)
				if fam == "random" {
					c19FixRandomDeletes(sc, rnd)
				}
				sc.Kind = kind
				var ch vk.Chooser
				r := rand.New(rand.NewSource(rnd.Int63()))
				switch i % 3 {
				case 0:
					ch = vk.RandomChooser{R: r}
				case 1:
					ch = c19Sticky{R: r, P: 0.25}
				default:
					ch = c19Sticky{R: r, P: 0.08}
				}
				s := vk.NewSched(ch)
				after := x.start(sc, s)
				ok := s.Run(maxSteps)
				s.Stop()
				after(ok)
			}
		}
	}
	// stale reads: only meaningful with two repositories on one shared store
	for vi := 0; vi < 4 && !x.stop; vi++ {
		sc := c19Family("stale-read", rnd, thorough)
		sc.Threads[1][0] = []c19Op{
			{K: "update", C: 101, Ref: 0, Upd: "inactive", Node: 1, Pin: true},
			{K: "update", C: 101, Ref: 0, Upd: "port", Node: 1, Pin: true},
			{K: "delete", C: 101, Ref: 0, Node: 1, Pin: true},
			{K: "update", C: 101, Ref: 0, Upd: "past", Node: 1, Pin: true},
		}[vi]
		sc.number()
		sc.Kind = "hybrid-2node"
		run.Case("stale-read|"+sc.Threads[1][0].K+sc.Threads[1][0].Upd, sc)
		if vi == 0 {
			run.Sample(sc)
		}
		for first := 0; first < 2; first++ {
			for k := 1; k <= 30 && !x.stop; k++ {
				ch := &c19Pause{First: fmt.Sprintf("T%d", first), K: k, Rest: []string{fmt.Sprintf("T%d", 1-first)}}
				s := vk.NewSched(ch)
				after := x.start(sc, s)
				ok := s.Run(maxSteps)
				s.Stop()
				after(ok)
				run.Count("pause_schedules", 1)
				if ch.Exhausted {
					break
				}
			}
		}
		st := vk.Explore(2, run.Pick(40, 1500), maxSteps, func(s *vk.Sched) func(bool) {
			if x.stop {
				return nil
			}
			return x.start(sc, s)
		})
		run.Count("explore_runs", int64(st.Runs))
		for i := 0; i < run.Pick(10, 300) && !x.stop; i++ {
			s := vk.NewSched(c19Sticky{R: rand.New(rand.NewSource(rnd.Int63())), P: 0.2})
			after := x.start(sc, s)
			ok := s.Run(maxSteps)
			s.Stop()
			after(ok)
		}
	}
	run.Floor("stale_read_windows", 8)
	run.Floor("deletes_of_unowned_ids", 100)
	run.Floor("strict_lookups", 100)
	run.Floor("schedules", int64(run.Pick(400, 8000)))
	run.Floor("claims_overlap_incr_setnx", 50)
	// claims_split_counter_read_write (a second claim reads the id counter between the
	// read and the write-back of the first) is only reachable while the storage draws
	// ids with a read + write; it is reported as a counter, not a floor.
	run.Floor("schedules_with_successful_claim", 200)
	run.Floor("lookups_quiescent_routed", 100)
	run.Floor("nonowner_deletes_refused", 10)
	run.Floor("followup_claim_on_owned_name_refused", 50)
	run.Floor("followup_reclaims_ok", 20)
	run.Floor("followup_claim_on_paused_name_refused", 50)
}

// ---------------------------------------------------------------- monitor 2: sequential histories

func TestVerifC19Histories(t *testing.T) {
	vk.Quiet()
	run := vk.Start(t, "C19", "histories")
	defer run.Finish()
	run.Rule("seeded sequential histories of create / update(port,status,expiry) / owner delete / non-owner delete / re-claim over 3 names × 4 clients on every store kind (two-node kind alternates nodes); after EVERY step all names are looked up on every node (lookupMapping and ServeHTTP) and compared with the owner table derived from the results so far; distinct = store|op-kind sequence")
	rd := c19StartRedis(t)
	rnd := run.Rand("hist")
	nHist := run.Pick(40, 600)
	x := &c19Exe{run: run, t: t, rd: rd}
	subs := []string{"app", "api", "www"}
	for _, kind := range c19Kinds {
		for h := 0; h < nHist && !x.stop; h++ {
			w := c19NewWorld(t, kind, rd, c19WorldOpts{})
			sc := &c19Scenario{Family: "sequential", Kind: kind}
			var results []c19Res
			var fp strings.Builder
			steps := 6 + rnd.Intn(10)
			pausedNo, pausedSub, pausedBase := -1, "", ""
			// every history ends with: pause one claim, let another lapse, run the expiry
			// sweep, a stranger claims the paused name, the owner resumes
			for i := 0; i < steps+5; i++ {
				tr := c19Audit(results)
				op := c19Op{No: len(results), Node: rnd.Intn(2)}
				var liveClaims []*c19Claim
				for _, l := range tr.live {
					liveClaims = append(liveClaims, l...)
				}
				// deterministic order for the PRNG-driven pick
				for a := 0; a < len(liveClaims); a++ {
					for b := a + 1; b < len(liveClaims); b++ {
						if liveClaims[b].No < liveClaims[a].No {
							liveClaims[a], liveClaims[b] = liveClaims[b], liveClaims[a]
						}
					}
				}
				var steady []*c19Claim // active, unexpired, certainly there
				for _, c := range liveClaims {
					if c.Active && !c.Expired && !c.MaybeGone && c.No != pausedNo {
						steady = append(steady, c)
					}
				}
				tail := i - steps
				switch p := rnd.Intn(11); {
				case tail == 0 && len(steady) > 0:
					c := steady[rnd.Intn(len(steady))]
					op.K, op.C, op.Ref, op.Upd = "update", c.Client, c.No, "inactive"
					pausedNo = c.No
					pausedSub, pausedBase, _ = strings.Cut(c.Name, ".")
				case tail == 1 && len(steady) > 0:
					c := steady[rnd.Intn(len(steady))]
					op.K, op.C, op.Ref, op.Upd = "update", c.Client, c.No, "past"
				case tail == 2 || p == 10:
					op.K = "sweep"
				case tail == 3 && pausedNo >= 0:
					op.K, op.C, op.Sub, op.Base = "create", 150, pausedSub, pausedBase
				case tail == 4 && pausedNo >= 0:
					op.K, op.C, op.Ref, op.Upd = "update", results[pausedNo].Op.C, pausedNo, "active"
				case p < 4 || len(liveClaims) == 0:
					op.K, op.C, op.Sub, op.Base = "create", int64(101+rnd.Intn(4)), subs[rnd.Intn(3)], c19Bases[rnd.Intn(2)]
				case p < 6:
					c := liveClaims[rnd.Intn(len(liveClaims))]
					op.K, op.C, op.Ref = "delete", c.Client, c.No
				case p < 7:
					c := liveClaims[rnd.Intn(len(liveClaims))]
					op.K, op.C, op.Ref = "delete", c.Client+1000, c.No
				default:
					c := liveClaims[rnd.Intn(len(liveClaims))]
					op.K, op.C, op.Ref = "update", c.Client, c.No
					op.Upd = []string{"port", "inactive", "active", "expired", "past", "future"}[rnd.Intn(6)]
				}
				fp.WriteString(op.K[:2] + op.Upd + ",")
				sc.Setup = append(sc.Setup, op)
				before := tr
				r := c19Exec(w, op, results)
				results = append(results, r)
				run.Eval(1)
				run.Count("steps", 1)
				if !r.Ran {
					run.Count("steps_skipped", 1)
					if op.K == "update" && r.Gone {
						// the owner wants to change (e.g. resume) its mapping and it is gone
						for _, c := range before.definite(all19Name(results, op.Ref)) {
							if c.No == op.Ref {
								x.violation("mapping-removed-without-owner-delete", sc, before, nil, results, map[string]any{"claim": c, "update": r})
							}
						}
					}
					continue
				}
				trN := c19Audit(results)
				// step outcome
				switch op.K {
				case "create":
					switch n := len(before.definite(op.full())); {
					case before.maybe(op.full()):
						run.Count("claims_on_maybe_swept_names", 1)
					case n >= 1 && r.OK:
						x.violation("double-owner", sc, trN, nil, results, map[string]any{"name": op.full(), "second_claim": r})
					case n >= 1:
						run.Count("claims_refused_owned", 1)
						if c := before.definite(op.full())[0]; !c.Active && !c.Expired {
							run.Count("claims_refused_on_paused_names", 1)
						}
					case n == 0 && !r.OK && before.touched[op.full()]:
						x.violation("not-reclaimable", sc, trN, nil, results, map[string]any{"claim": r})
					case n == 0 && r.OK:
						run.Count("claims_ok", 1)
						if before.touched[op.full()] {
							run.Count("reclaims_ok", 1)
						}
					}
				case "delete":
					x.judgeNonOwnerDeletes(sc, trN, results[len(results)-1:], nil)
				case "update":
					if r.OK {
						run.Count("updates_ok_"+op.Upd, 1)
					}
				case "sweep":
					if r.OK {
						run.Count("sweeps_ok", 1)
						for _, l := range before.live {
							for _, c := range l {
								if !c.Active && !c.Expired && !c.StatusExpired {
									run.Count("sweeps_over_paused_claims", 1)
								}
								if c.Expired {
									run.Count("sweeps_over_expired_claims", 1)
								}
							}
						}
					}
				}
				// routing of every name after the step
				names := map[string]bool{}
				for _, s := range subs {
					for _, b := range c19Bases {
						names[s+"."+b] = true
					}
				}
				x.judgeRouting(sc, w, trN, names, results, nil, fmt.Sprintf("after-step-%d", i))
				for _, l := range trN.live {
					for _, c := range l {
						if !c.Active || c.Expired {
							run.Count("lookups_of_inactive_or_expired_names", 1)
						}
					}
				}
				if len(trN.dupIDs) > 0 {
					run.Count("dup_ids_observed", 1)
				}
			}
			run.Distinct(kind + "|" + fp.String())
			if h < 1 {
				run.Sample(map[string]any{"store": kind, "ops": sc.Setup})
			}
			w.Close()
		}
	}

	// id counter whose cache entry expired (hybrid keeps the counter in the local cache
	// with DefaultCacheTTL): ids must still not collide. Interval rule: the second
	// claim starts more than 3×TTL after the first one returned.
	for i := 0; i < run.Pick(2, 6) && !x.stop; i++ {
		ttl := 40 * time.Millisecond
		w := c19NewWorld(t, "hybrid-mem", rd, c19WorldOpts{counterTTL: ttl})
		sc := &c19Scenario{Family: "counter-ttl", Kind: "hybrid-mem", Setup: []c19Op{
			{No: 0, K: "create", C: 101, Sub: "app", Base: c19Bases[0]},
			{No: 1, K: "create", C: 102, Sub: "api", Base: c19Bases[0]},
		}}
		var results []c19Res
		results = append(results, c19Exec(w, sc.Setup[0], results))
		time.Sleep(4 * ttl)
		results = append(results, c19Exec(w, sc.Setup[1], results))
		tr := c19Audit(results)
		run.Eval(1)
		run.Count("counter_ttl_cases", 1)
		names := map[string]bool{"app." + c19Bases[0]: true, "api." + c19Bases[0]: true}
		if len(tr.dupIDs) > 0 {
			run.Count("dup_ids_observed", 1)
		}
		// reported under its own signature (different trigger, same counter)
		var witness []c19Res
		for _, name := range c19SortedKeys(names) {
			for _, h := range []string{name, name + ":80"} {
				r := c19Exec(w, c19Op{K: "lookup", Host: h}, nil)
				run.Count("lookups_quiescent", 1)
				if r.Routed {
					run.Count("lookups_quiescent_routed", 1)
				}
				if class, _ := c19JudgeRoute(tr, r); class != "" {
					witness = append(witness, r)
				}
			}
		}
		if len(witness) > 0 {
			run.Violation("C19:dup-mapping-id|store=hybrid-mem|trigger=counter-ttl-expired", map[string]any{
				"ttl_ms": ttl.Milliseconds(), "results": results, "dup_ids": tr.dupIDs, "misrouted_lookups": witness,
				"note": "hybrid Incr keeps tunnox:http_domain:next_id in the local cache with DefaultCacheTTL; once it expires ids restart at hdm_1 and the new record overwrites the old one",
			})
		}
		w.Close()
	}

	// a refused claim must leave nothing behind that its author could later "delete":
	// owner claims, another client is refused, deletes every id around the one its
	// attempt consumed (own client id, ordinary delete), claims again — refused again
	for _, kind := range c19Kinds {
		for v := 0; v < 3 && !x.stop; v++ {
			w := c19NewWorld(t, kind, rd, c19WorldOpts{})
			sc := &c19Scenario{Family: "refused-claim-then-delete", Kind: kind}
			ops := []c19Op{c19Create(101, "app", c19Bases[0])}
			for i := 0; i < v; i++ {
				ops = append(ops, c19Create(int64(110+i), fmt.Sprintf("pad%d", i), c19Bases[i%2]))
			}
			refusedNode := v % 2
			ops = append(ops, c19Op{K: "create", C: 102, Sub: "app", Base: c19Bases[0], Node: refusedNode, Pin: true})
			for id := 1; id <= v+4; id++ {
				ops = append(ops, c19Op{K: "delete", C: 102, IDLit: fmt.Sprintf("hdm_%d", id), Node: refusedNode, Pin: true})
			}
			ops = append(ops, c19Op{K: "create", C: 102, Sub: "app", Base: c19Bases[0], Node: refusedNode, Pin: true})
			sc.Setup = ops
			sc.number()
			var results []c19Res
			for _, op := range sc.Setup {
				results = append(results, c19Exec(w, op, results))
			}
			run.Eval(1)
			run.Count("refused_claim_delete_cases", 1)
			if r := results[1+v]; r.Ran && !r.OK {
				run.Count("refused_claims_followed_by_deletes", 1)
			}
			x.judge(sc, w, results, nil)
			w.Close()
		}
	}
	run.Floor("refused_claims_followed_by_deletes", 12)

	// time passes: a claim must keep its name for as long as the mapping is live, also
	// after every cache TTL of the hybrid storage has elapsed. The hybrid stores are
	// built with millisecond TTLs (DefaultCacheTTL always; SharedCacheTTL too when a
	// persistent tier backs the records), the claims age certainly beyond them
	// (interval rule: the pause starts after the creates RETURNED and lasts 3×TTL;
	// miniredis' clock is fast-forwarded by the same amount), then the usual audit
	// runs: routing, a second claim must be refused, owner delete, re-claim.
	{
		const ttl = 120 * time.Millisecond
		type aged struct {
			w       *c19World
			sc      *c19Scenario
			results []c19Res
		}
		for rep := 0; rep < run.Pick(2, 8) && !x.stop; rep++ {
			var worlds []*aged
			for _, kind := range []string{"hybrid-mem", "hybrid-redis", "hybrid-2node"} {
				for _, persist := range []bool{false, true} {
					o := c19WorldOpts{counterTTL: ttl, persist: persist}
					label := kind + ",aged"
					if persist {
						o.sharedTTL = ttl
						label = kind + "+persistent,aged"
					}
					// worlds on redis share one miniredis: they are built and aged one after another
					a := &aged{w: nil, sc: &c19Scenario{Family: "time-passes", Kind: label}}
					a.sc.Setup = []c19Op{
						{No: 0, K: "create", C: 101, Sub: "app", Base: c19Bases[0]},
						{No: 1, K: "update", C: 101, Ref: 0, Upd: "future"}, // a dated mapping, far from its end
						{No: 2, K: "create", C: 102, Sub: "api", Base: c19Bases[rep%2], Node: 1},
						{No: 3, K: "create", C: 103, Sub: "paused", Base: c19Bases[0]},
						{No: 4, K: "update", C: 103, Ref: 3, Upd: "inactive"},
					}
					a.sc.nops = len(a.sc.Setup)
					run.Case("time-passes|"+label, a.sc)
					a.w = c19NewWorld(t, kind, rd, o)
					for _, op := range a.sc.Setup {
						a.results = append(a.results, c19Exec(a.w, op, a.results))
					}
					if kind == "hybrid-mem" {
						worlds = append(worlds, a) // aged together below
						continue
					}
					time.Sleep(3 * ttl)
					rd.mr.FastForward(3 * ttl)
					x.judge(a.sc, a.w, a.results, nil)
					run.Eval(1)
					run.Count("aged_worlds_audited", 1)
					a.w.Close()
				}
			}
			time.Sleep(3 * ttl)
			for _, a := range worlds {
				x.judge(a.sc, a.w, a.results, nil)
				run.Eval(1)
				run.Count("aged_worlds_audited", 1)
				a.w.Close()
			}
		}
		run.Floor("aged_worlds_audited", int64(run.Pick(12, 48)))
		run.Floor("followup_claim_on_owned_name_refused", 30)
	}

	run.Floor("steps", int64(run.Pick(1000, 15000)))
	run.Floor("claims_ok", 200)
	run.Floor("claims_refused_owned", 50)
	run.Floor("reclaims_ok", 20)
	run.Floor("nonowner_deletes_refused", 30)
	run.Floor("lookups_quiescent_routed", 500)
	run.Floor("lookups_of_inactive_or_expired_names", 100)
	run.Floor("sweeps_over_paused_claims", 30)
	run.Floor("sweeps_over_expired_claims", 30)
}

func all19Name(results []c19Res, no int) string {
	if no >= 0 && no < len(results) {
		return results[no].Op.full()
	}
	return ""
}

// ---------------------------------------------------------------- monitor 3: Host spellings

type c19HostCase struct {
	Class string
	Host  string
}

func c19MixCase(s string, r *rand.Rand) string {
	b := []byte(s)
	for i := range b {
		if b[i] >= 'a' && b[i] <= 'z' && r.Intn(2) == 0 {
			b[i] -= 32
		}
	}
	return string(b)
}

func c19HostCases(name, other string, r *rand.Rand) []c19HostCase {
	long := strings.Repeat("a", 300+r.Intn(5000))
	return []c19HostCase{
		{"exact", name},
		{"port80", name + ":80"},
		{"port65535", name + ":65535"},
		{"port0", name + ":0"},
		{"port-random", fmt.Sprintf("%s:%d", name, 1+r.Intn(65535))},
		{"upper", strings.ToUpper(name)},
		{"mixed", c19MixCase(name, r)},
		{"mixed-port", c19MixCase(name, r) + ":8443"},
		{"trailing-dot", name + "."},
		{"trailing-dot-port", name + ".:80"},
		{"empty-port", name + ":"},
		{"nonnumeric-port", name + ":http"},
		{"double-port", name + ":80:81"},
		{"ipv6", "[::1]"},
		{"ipv6-port", "[::1]:80"},
		{"ipv6-bare", "::1"},
		{"empty", ""},
		{"colon-only", ":"},
		{"port-only", ":80"},
		{"very-long", long + "." + name},
		{"very-long-port", name + ":" + strings.Repeat("9", 400)},
		{"sub-of-name", "x." + name},
		{"name-as-prefix", name + ".evil.example"},
		{"other-colon-name", other + ":" + name},
		{"name-colon-other", name + ":" + other},
		{"userinfo", "evil@" + name},
		{"space", " " + name},
		{"tab-suffix", name + "\t"},
		{"nul", name + "\x00" + other},
		{"slash", name + "/" + other},
		{"unicode-dot", strings.Replace(name, ".", "。", 1)},
	}
}

// c19HostGroup coarsens the spelling class for signatures (the exact spelling is in
// the witness).
func c19HostGroup(class string) string {
	switch class {
	case "exact":
		return "exact"
	case "port80", "port65535", "port0", "port-random", "empty-port", "nonnumeric-port", "very-long-port", "double-port":
		return "port"
	case "upper", "mixed", "mixed-port":
		return "case"
	case "trailing-dot", "trailing-dot-port":
		return "trailing-dot"
	case "ipv6", "ipv6-port", "ipv6-bare", "empty", "colon-only", "port-only":
		return "literal"
	}
	return "composite"
}

func c19HostVariants(name string, r *rand.Rand, n int) []string {
	cs := c19HostCases(name, "zz."+c19Bases[0], r)
	var out []string
	for i := 0; i < n; i++ {
		out = append(out, cs[r.Intn(len(cs))].Host)
	}
	return out
}

func TestVerifC19HostSpellings(t *testing.T) {
	vk.Quiet()
	run := vk.Start(t, "C19", "host-spellings")
	defer run.Finish()
	run.Rule("worlds with 3–6 live names of different clients (+ deleted, inactive, expired names and legacy DomainRegistry entries incl. inactive/revoked/expired) on every store kind; for every name × 31 Host spelling classes (ports, case, trailing dot, IPv6 literals, empty, very long, confusable composites) the real lookupMapping and the real ServeHTTP (stub session manager records client+target URL) are asked; the answer must be a reject or the single live active owner of a name the Host can be read as; distinct = store|spelling class|routed?")
	rd := c19StartRedis(t)
	rnd := run.Rand("hosts")
	worlds := run.Pick(6, 60)
	x := &c19Exe{run: run, t: t, rd: rd}
	for _, kind := range c19Kinds {
		for wi := 0; wi < worlds && !x.stop; wi++ {
			w := c19NewWorld(t, kind, rd, c19WorldOpts{})
			sc := &c19Scenario{Family: "host-spellings", Kind: kind}
			var results []c19Res
			do := func(op c19Op) c19Res {
				op.No = len(results)
				sc.Setup = append(sc.Setup, op)
				r := c19Exec(w, op, results)
				results = append(results, r)
				return r
			}
			subs := []string{"app", "api", "www", "a", "my-site", "x1"}
			rnd.Shuffle(len(subs), func(i, j int) { subs[i], subs[j] = subs[j], subs[i] })
			nLive := 3 + rnd.Intn(3)
			for i := 0; i < nLive; i++ {
				do(c19Create(int64(101+i), subs[i], c19Bases[rnd.Intn(2)]))
			}
			// names that differ only in letter case, held by DIFFERENT clients at the same
			// time (claims are verbatim); a tree that normalises at claim time refuses the
			// second one and the case is vacuous (counted)
			cv := [][]string{{"MyApp", "myapp", "MYAPP"}, {"Shop", "shop"}, {"api-V2", "API-v2"}}[rnd.Intn(3)]
			coexist := 0
			for i, sub := range cv {
				if r := do(c19Create(int64(401+i), sub, c19Bases[0])); r.OK {
					coexist++
				}
			}
			if coexist >= 2 {
				run.Count("case_variant_names_coexisting", int64(coexist))
			} else {
				run.Count("case_variant_claims_refused", int64(len(cv)-coexist))
			}
			// a full domain with a trailing dot cannot be claimed: the base domain must be
			// one of the configured ones verbatim
			if r := do(c19Create(450, "dotted", c19Bases[0]+".")); r.OK {
				run.Count("trailing_dot_claims_accepted", 1)
			} else {
				run.Count("trailing_dot_claims_refused", 1)
			}
			// one deleted, one inactive, one expired (by time), one expired (status)
			special := []string{"gone", "paused", "lapsed", "expired"}
			for i, s := range special {
				r := do(c19Create(int64(201+i), s, c19Bases[0]))
				switch s {
				case "gone":
					do(c19Op{K: "delete", C: r.Op.C, Ref: r.Op.No})
				case "paused":
					do(c19Op{K: "update", C: r.Op.C, Ref: r.Op.No, Upd: "inactive"})
				case "lapsed":
					do(c19Op{K: "update", C: r.Op.C, Ref: r.Op.No, Upd: "past"})
				case "expired":
					do(c19Op{K: "update", C: r.Op.C, Ref: r.Op.No, Upd: "expired"})
				}
			}
			tr := c19Audit(results)
			// legacy registry entries on disjoint names; they are claims of the registry
			past := time.Now().Add(-2 * time.Hour)
			type legacy struct {
				sub     string
				status  models.MappingStatus
				revoked bool
				exp     *time.Time
				routes  bool
			}
			for i, lg := range []legacy{
				{"legacy", models.MappingStatusActive, false, nil, true},
				{"legacy-off", models.MappingStatusInactive, false, nil, false},
				{"legacy-revoked", models.MappingStatusActive, true, nil, false},
				{"legacy-lapsed", models.MappingStatusActive, false, &past, false},
			} {
				pm := &models.PortMapping{ID: fmt.Sprintf("pm_%d", i), TargetClientID: int64(301 + i), TargetHost: c19TargetHost(int64(301 + i)), TargetPort: 7000 + i,
					Protocol: models.ProtocolHTTP, HTTPSubdomain: lg.sub, HTTPBaseDomain: c19Bases[0], Status: lg.status, IsRevoked: lg.revoked, ExpiresAt: lg.exp}
				for _, n := range w.nodes {
					if err := n.reg.Register(pm); err != nil {
						t.Fatalf("[setup failed] registry register: %v", err)
					}
				}
				c := &c19Claim{No: -1 - i, Client: pm.TargetClientID, Name: pm.FullDomain(), ID: pm.ID, Host: pm.TargetHost, Port: pm.TargetPort, Active: lg.routes}
				tr.claims = append(tr.claims, c)
				tr.live[c.Name] = append(tr.live[c.Name], c)
				tr.touched[c.Name] = true
			}
			var names []string
			for n := range tr.touched {
				names = append(names, n)
			}
			// deterministic order
			for a := 0; a < len(names); a++ {
				for b := a + 1; b < len(names); b++ {
					if names[b] < names[a] {
						names[a], names[b] = names[b], names[a]
					}
				}
			}
			for _, name := range names {
				other := names[rnd.Intn(len(names))]
				for _, hc := range c19HostCases(name, other, rnd) {
					for ni := range w.nodes {
						for _, via := range []bool{false, true} {
							r := c19Exec(w, c19Op{K: "lookup", Host: hc.Host, Node: ni, ViaSrv: via}, nil)
							run.Eval(1)
							run.Count("lookups", 1)
							if r.Routed {
								run.Count("lookups_routed", 1)
								run.Count("routed_class_"+hc.Class, 1)
								if hc.Class == "exact" && name != strings.ToLower(name) {
									run.Count("routed_exact_mixedcase_names", 1)
								}
							}
							run.Distinct(fmt.Sprintf("%s|%s|%v", kind, hc.Class, r.Routed))
							if class, exp := c19JudgeRoute(tr, r); class != "" {
								sig := c19Sig(class, "host="+c19HostGroup(hc.Class), kind, tr)
								run.Violation(sig, map[string]any{"class": class, "host": hc.Host, "lookup": r, "expected_owner": exp, "setup": sc.Setup, "results": results})
								if run.Violations() >= 20 {
									x.stop = true
								}
							}
							if l := tr.live[name]; len(l) == 1 && (!l[0].Active || l[0].Expired) && (hc.Class == "exact" || hc.Class == "port80") {
								run.Count("lookups_of_nonrouting_names", 1)
							}
						}
					}
				}
			}
			// request headers that NAME ANOTHER HOST: routing follows the request's Host
			// only. Host = a live name / an unclaimed name; header value = a name owned
			// by a different client.
			var routable []string
			for _, name := range names {
				if l := tr.live[name]; len(l) == 1 && l[0].Active && !l[0].Expired && l[0].No >= 0 {
					routable = append(routable, name)
				}
			}
			if len(routable) >= 2 {
				for i, name := range routable {
					otherName := routable[(i+1)%len(routable)]
					for _, hk := range []string{"X-Forwarded-Host", "Forwarded", "X-Original-Host", "X-Host", "X-Forwarded-Server", "X-HTTP-Host-Override", "X-Real-Host"} {
						hv := otherName
						switch {
						case hk == "Forwarded":
							hv = "for=203.0.113.5;host=" + otherName + ";proto=http"
						case hk == "X-Forwarded-Host" && i%2 == 1:
							hv = otherName + ", " + name
						}
						for _, host := range []string{name, name + ":80", "never-claimed." + c19Bases[0], ""} {
							for ni := range w.nodes {
								r := c19Exec(w, c19Op{K: "lookup", Host: host, Node: ni, ViaSrv: true, HdrK: hk, HdrV: hv}, nil)
								run.Eval(1)
								run.Count("lookups_with_foreign_host_header", 1)
								if r.Routed {
									run.Count("lookups_with_foreign_host_header_routed", 1)
								}
								run.Distinct(fmt.Sprintf("%s|hdr=%s|%v", kind, hk, r.Routed))
								if class, exp := c19JudgeRoute(tr, r); class != "" {
									run.Violation("C19:"+class+"|header="+hk, map[string]any{"class": class, "store": kind, "host": host, "header": hk, "header_value": hv, "lookup": r, "expected_owner": exp, "results": results})
									if run.Violations() >= 20 {
										x.stop = true
									}
								}
							}
						}
					}
				}
			}
			if wi == 0 {
				run.Sample(map[string]any{"store": kind, "names": names})
			}
			w.Close()
		}
	}
	run.Floor("lookups", int64(run.Pick(3000, 30000)))
	run.Floor("lookups_routed", 300)
	run.Floor("routed_class_port65535", 20)
	run.Floor("lookups_of_nonrouting_names", 50)
	run.Floor("lookups_with_foreign_host_header", 2000)
	run.Floor("lookups_with_foreign_host_header_routed", 500)
	// non-vacuity of the case-variant pairs on a tree that claims names verbatim; a tree
	// that normalises at claim time shows case_variant_claims_refused instead
	if run.Counter("case_variant_claims_refused") == 0 {
		run.Floor("routed_exact_mixedcase_names", 40)
	}
}

// ---------------------------------------------------------------- monitor 4: single storage faults

// c19FaultHook makes the pos-th storage-tier operation (0-based, counted over all
// tiers while armed) fail once with vk.ErrInjected.
type c19FaultHook struct {
	armed bool
	pos   int
	n     int
	fired string // tier.op:key of the failed operation
}

func (f *c19FaultHook) hook(tier, op, key string) error {
	if !f.armed {
		return nil
	}
	i := f.n
	f.n++
	if i == f.pos && f.fired == "" {
		f.fired = tier + "." + op + ":" + key
		return vk.ErrInjected
	}
	return nil
}

func TestVerifC19Faults(t *testing.T) {
	vk.Quiet()
	run := vk.Start(t, "C19", "faults")
	defer run.Finish()
	run.Rule("single-fault enumeration: for every store kind and every scenario (claim of a FREE name, claim of a name OWNED by another client — same and other node —, owner delete, non-owner delete, owner update, claim after delete) the call is repeated in fresh worlds with its 0th, 1st, 2nd … storage-tier operation failing once (until the call makes fewer operations); then the caller retries without fault and the owner-table audit runs with obligations only from calls that returned success and were not hit by the fault (a failed claim must not change anybody's ownership); distinct = store|scenario|failed operation|call outcome")
	rd := c19StartRedis(t)
	x := &c19Exe{run: run, t: t, rd: rd}
	b0 := c19Bases[0]
	type fsc struct {
		name  string
		setup []c19Op
		op    c19Op
		retry bool
	}
	scs := []fsc{
		{"claim-free-name", []c19Op{c19Create(101, "other", b0)}, c19Create(102, "app", b0), true},
		{"claim-owned-name", []c19Op{c19Create(101, "app", b0)}, c19Create(102, "app", b0), true},
		{"claim-owned-name-other-node", []c19Op{c19Create(101, "app", b0)}, c19Op{K: "create", C: 102, Sub: "app", Base: b0, Node: 1}, true},
		{"claim-owned-paused-name", []c19Op{c19Create(101, "app", b0), {K: "update", C: 101, Ref: 0, Upd: "inactive"}}, c19Create(102, "app", b0), true},
		// the owner RETRIES its delete after the fault; once a delete returned success the
		// name must be claimable again (no dangling index)
		{"owner-delete", []c19Op{c19Create(101, "app", b0), c19Create(103, "api", b0)}, c19Delete(101, 0), true},
		{"nonowner-delete", []c19Op{c19Create(101, "app", b0)}, c19Op{K: "delete", C: 102, Ref: 0, Node: 1}, true},
		{"owner-update", []c19Op{c19Create(101, "app", b0)}, c19Op{K: "update", C: 101, Ref: 0, Upd: "future"}, false},
		{"claim-after-delete", []c19Op{c19Create(101, "app", b0), c19Delete(101, 0)}, c19Create(102, "app", b0), true},
	}
	reps := 1 // the enumeration is exhaustive and deterministic
	for rep := 0; rep < reps; rep++ {
		for _, kind := range c19Kinds {
			for _, f := range scs {
				for pos := 0; pos < 40 && !x.stop; pos++ {
					sc := &c19Scenario{Family: "fault:" + f.name, Kind: kind}
					sc.Setup = append(append([]c19Op(nil), f.setup...), f.op)
					if f.retry {
						sc.Setup = append(sc.Setup, f.op)
					}
					sc.number()
					run.Case(fmt.Sprintf("fault|%s|%s|pos=%d", kind, f.name, pos), sc)
					w := c19NewWorld(t, kind, rd, c19WorldOpts{})
					fh := &c19FaultHook{pos: pos}
					w.SetHook(fh.hook)
					var results []c19Res
					for i, op := range sc.Setup {
						faulted := i == len(f.setup)
						fh.armed = faulted
						r := c19Exec(w, op, results)
						fh.armed = false
						if faulted && fh.fired != "" {
							r.Faulted = true
						}
						results = append(results, r)
					}
					w.SetHook(nil)
					run.Eval(1)
					if fh.fired == "" {
						w.Close()
						break // the call makes fewer than pos+1 storage operations
					}
					fr := results[len(f.setup)]
					if f.name == "owner-delete" && len(results) > len(f.setup)+1 {
						if rr := results[len(f.setup)+1]; rr.Ran && rr.OK {
							run.Count("owner_delete_retries_ok_after_fault", 1)
						} else if rr.Ran {
							run.Count("owner_delete_retries_refused_after_fault", 1)
						}
					}
					run.Count("faults_fired", 1)
					run.Count("faults_fired_"+f.name, 1)
					outcome := "error"
					if fr.OK {
						outcome = "ok"
						run.Count("faulted_calls_returned_ok", 1)
					} else if !fr.Ran {
						outcome = "skipped"
					} else {
						run.Count("faulted_calls_returned_error", 1)
						if strings.HasPrefix(f.name, "claim-owned") {
							run.Count("faulted_claims_of_owned_names_failed", 1)
						}
					}
					fired := fh.fired
					if i := strings.Index(fired, "hdm_"); i >= 0 {
						fired = fired[:i] + "hdm_N"
					}
					run.Distinct(kind + "|" + f.name + "|" + fired + "|" + outcome)
					if pos == 1 && rep == 0 && kind == "hybrid-redis" {
						run.Sample(map[string]any{"store": kind, "scenario": f.name, "failed_operation": fh.fired, "results": results})
					}
					x.judge(sc, w, results, []string{"fault@" + fh.fired})
					w.Close()
				}
			}
		}
	}
	run.Floor("faults_fired", 100)
	run.Floor("faulted_claims_of_owned_names_failed", 20)
	run.Floor("faults_fired_owner-delete", 12)
	run.Floor("owner_delete_retries_ok_after_fault", 4)
	run.Floor("followup_claim_on_owned_name_refused", 100)
	run.Exhaustive(true)
}
