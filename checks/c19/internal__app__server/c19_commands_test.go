//go:build verif && verif_c19

package server

import (
	"context"
	"encoding/json"
	"fmt"
	"net/http"
	"net/http/httptest"
	"strings"
	"sync"
	"testing"
	"time"

	"tunnox-core/internal/core/storage"
	"tunnox-core/internal/httpservice"
	"tunnox-core/internal/httpservice/modules/domainproxy"
	"tunnox-core/internal/packet"
	"tunnox-core/internal/protocol/httptypes"
	vk "tunnox-core/internal/verifkit"
)

// C19 at the command boundary: authenticated clients send HTTPDomainCreate /
// HTTPDomainDelete over their control connection of the real mini-server (real
// command registry, real handlers, real repository adapter, hybrid storage as in
// production). The identity used for ownership must be the connection's, so a client
// can never delete another client's mapping by naming its id, and concurrent claims of
// one name through different connections have at most one winner.

type c19CmdOut struct {
	Success   bool   `json:"success"`
	MappingID string `json:"mapping_id"`
	Full      string `json:"full_domain"`
	Error     string `json:"error"`
	raw       string
	answered  bool
}

var c19CmdSeq int64
var c19CmdMu sync.Mutex

func c19Command(c *miniClient, ct packet.CommandType, body any) c19CmdOut {
	return c19CommandT(c, ct, body, 5*time.Second)
}

func c19CommandT(c *miniClient, ct packet.CommandType, body any, wait time.Duration) c19CmdOut {
	b, _ := json.Marshal(body)
	c19CmdMu.Lock()
	c19CmdSeq++
	id := fmt.Sprintf("c19-%d", c19CmdSeq)
	c19CmdMu.Unlock()
	resp, _, _ := c.Command(&packet.CommandPacket{CommandType: ct, CommandId: id, CommandBody: string(b)}, wait)
	var out c19CmdOut
	if resp == nil {
		return out
	}
	out.answered = true
	out.raw = resp.CommandBody
	// the body is either the handler's JSON or an envelope {success,data,...}
	var env struct {
		Success *bool           `json:"success"`
		Data    json.RawMessage `json:"data"`
		Error   string          `json:"error"`
	}
	if json.Unmarshal([]byte(resp.CommandBody), &env) == nil && len(env.Data) > 0 && string(env.Data) != "null" {
		data := []byte(env.Data)
		var asString string
		if json.Unmarshal(data, &asString) == nil {
			data = []byte(asString)
		}
		_ = json.Unmarshal(data, &out)
		if env.Success != nil && !*env.Success {
			out.Success = false
		}
		if out.Error == "" {
			out.Error = env.Error
		}
		return out
	}
	_ = json.Unmarshal([]byte(resp.CommandBody), &out)
	return out
}

func TestVerifC19Commands(t *testing.T) {
	vk.Quiet()
	run := vk.Start(t, "C19", "commands")
	defer run.Finish()
	run.Rule("rounds on a fresh mini-server (hybrid(memory) as in production, and plain memory): G∈[2,4] authenticated clients claim the SAME name concurrently through their own control connections, a non-owner names the winner's mapping id in HTTPDomainDelete, the owner deletes, another client re-claims; after every phase the repository is asked who owns the name; distinct = store|G|winner|phase outcomes")
	rnd := run.Rand("commands")
	rounds := run.Pick(150, 1500)
	for _, kind := range []string{"hybrid-mem", "memory"} {
		for round := 0; round < rounds && run.Violations() < 20; round++ {
			ctx, cancel := context.WithCancel(context.Background())
			var st storage.Storage
			if kind == "memory" {
				st = storage.NewMemoryStorage(ctx)
			} else {
				cache, ok := storage.NewMemoryStorage(ctx).(storage.CacheStorage)
				if !ok {
					t.Fatalf("[setup failed] memory storage is not a CacheStorage")
				}
				st = storage.NewHybridStorageWithSharedCache(ctx, cache, nil, nil, storage.DefaultHybridConfig())
			}
			n := newMiniNode(t, miniOpts{Store: st})
			g := 2 + rnd.Intn(3)
			sub := []string{"app", "api", "my-site"}[rnd.Intn(3)]
			base := "tunnox.net"
			full := sub + "." + base
			run.Case("commands-round", map[string]any{"store": kind, "round": round, "g": g, "name": full})
			cl := make([]*miniClient, g)
			for i := range cl {
				cl[i] = n.NewClient(fmt.Sprintf("198.51.100.%d:%d", 10+i, 40000+i))
			}
			owner := func() (int64, string, bool) {
				m, err := n.Domains.LookupByDomain(context.Background(), full)
				if err != nil || m == nil {
					return 0, "", false
				}
				return m.ClientID, fmt.Sprintf("%s:%d", m.TargetHost, m.TargetPort), true
			}
			target := func(i int) string { return fmt.Sprintf("http://c%d.lan:%d", i, 3000+i) }
			wantTarget := func(i int) string { return fmt.Sprintf("c%d.lan:%d", i, 3000+i) }

			// phase 1: concurrent claims of one name
			outs := make([]c19CmdOut, g)
			var wg sync.WaitGroup
			for i := range cl {
				i := i
				wg.Add(1)
				go func() {
					defer wg.Done()
					outs[i] = c19Command(cl[i], packet.HTTPDomainCreate, packet.HTTPDomainCreateRequest{TargetURL: target(i), Subdomain: sub, BaseDomain: base})
				}()
			}
			wg.Wait()
			run.Eval(1)
			win, winners, unanswered := -1, 0, 0
			for i, o := range outs {
				if !o.answered {
					unanswered++
				}
				if o.Success && o.MappingID != "" {
					winners++
					win = i
				}
			}
			if unanswered > 0 {
				run.Count("watchdog_unanswered", int64(unanswered))
				n.Close()
				cancel()
				continue
			}
			run.Count("claims", int64(g))
			fp := fmt.Sprintf("%s|g=%d|win=%d", kind, g, win)
			if winners > 1 {
				run.Violation("C19:cmd|double-owner|store="+kind, map[string]any{"name": full, "responses": c19Raw(outs)})
			}
			if winners != 1 {
				if winners == 0 {
					run.Count("rounds_no_winner", 1)
				}
				n.Close()
				cancel()
				continue
			}
			run.Count("rounds_single_winner", 1)
			if c, tg, ok := owner(); ok && (c != cl[win].ClientID || tg != wantTarget(win)) {
				run.Violation("C19:cmd|misroute|store="+kind, map[string]any{"name": full, "winner_client": cl[win].ClientID, "routes_to_client": c, "target": tg})
			} else if ok {
				run.Count("routes_to_winner", 1)
			}
			// phase 1b: every refused claimant sends ordinary deletes, under its own
			// identity, for the (sequential, predictable) mapping ids around the one its
			// refused attempt consumed. Replies carry no obligation (unknown id → "already
			// deleted"); the EFFECT does: the winner keeps the name and its target.
			for i := range cl {
				if i == win {
					continue
				}
				for id := 1; id <= g+2; id++ {
					c19Command(cl[i], packet.HTTPDomainDelete, packet.HTTPDomainDeleteRequest{MappingID: fmt.Sprintf("hdm_%d", id)})
					run.Count("refused_claimant_deletes", 1)
				}
				c, tg, ok := owner()
				if !ok || c != cl[win].ClientID || tg != wantTarget(win) {
					run.Violation("C19:cmd|refused-claimant-delete-changed-owner|store="+kind, map[string]any{"name": full, "owner": cl[win].ClientID, "refused_claimant": cl[i].ClientID, "routes": ok, "now_client": c, "now_target": tg, "create_responses": c19Raw(outs)})
					break
				}
				run.Count("refused_claimant_deletes_left_owner_intact", 1)
				if rc := c19Command(cl[i], packet.HTTPDomainCreate, packet.HTTPDomainCreateRequest{TargetURL: target(i), Subdomain: sub, BaseDomain: base}); rc.answered && rc.Success {
					run.Violation("C19:cmd|double-owner|store="+kind, map[string]any{"name": full, "owner": cl[win].ClientID, "second": cl[i].ClientID, "after": "deletes of guessed ids by the refused claimant", "response": rc.raw})
					break
				}
			}
			// phase 2: a non-owner names the winner's mapping id
			other := (win + 1) % g
			d := c19Command(cl[other], packet.HTTPDomainDelete, packet.HTTPDomainDeleteRequest{MappingID: outs[win].MappingID})
			if d.answered && d.Success {
				run.Violation("C19:cmd|non-owner-delete-succeeded|store="+kind, map[string]any{"name": full, "owner": cl[win].ClientID, "deleter": cl[other].ClientID, "response": d.raw})
			} else if d.answered {
				run.Count("nonowner_deletes_refused", 1)
			}
			if c, _, ok := owner(); !ok || c != cl[win].ClientID {
				if d.answered && !d.Success {
					run.Violation("C19:cmd|refused-delete-changed-owner|store="+kind, map[string]any{"name": full, "owner": cl[win].ClientID, "now": c, "routes": ok})
				}
			}
			// phase 2b: requesters with NO bound client (a connection that never
			// authenticated, and one that only asked for a challenge for the owner's id)
			// name the winner's mapping id / claim the name: nothing may change. The
			// verdict is the EFFECT (who owns the name afterwards), not the reply — an
			// unanswered command (short wait) is fine.
			if round%3 == 0 {
				for ri, rq := range []string{"unauthenticated", "challenge-only-as-owner"} {
					ac, err := n.Connect(fmt.Sprintf("198.51.100.%d:%d", 200+ri, 45000+ri))
					if err != nil || ac == nil {
						run.Count("unbound_connect_failed", 1)
						continue
					}
					if rq == "challenge-only-as-owner" {
						_, _ = ac.Phase1(cl[win].ClientID, "control")
					}
					ad := c19CommandT(ac, packet.HTTPDomainDelete, packet.HTTPDomainDeleteRequest{MappingID: outs[win].MappingID}, 150*time.Millisecond)
					aclaim := c19CommandT(ac, packet.HTTPDomainCreate, packet.HTTPDomainCreateRequest{TargetURL: "http://evil.lan:6666", Subdomain: sub, BaseDomain: base}, 150*time.Millisecond)
					run.Count("unbound_requests", 2)
					if ad.answered {
						run.Count("unbound_requests_answered", 1)
					}
					c, tg, ok := owner()
					if ad.answered && ad.Success {
						run.Violation("C19:cmd|non-owner-delete-succeeded|requester=unbound|store="+kind, map[string]any{"name": full, "requester": rq, "owner": cl[win].ClientID, "response": ad.raw, "still_routes": ok})
					}
					if aclaim.answered && aclaim.Success {
						run.Violation("C19:cmd|double-owner|requester=unbound|store="+kind, map[string]any{"name": full, "requester": rq, "owner": cl[win].ClientID, "response": aclaim.raw})
					}
					if !ok || c != cl[win].ClientID || tg != wantTarget(win) {
						run.Violation("C19:cmd|unbound-requester-changed-owner|store="+kind, map[string]any{"name": full, "requester": rq, "owner": cl[win].ClientID, "routes": ok, "now_client": c, "now_target": tg, "delete_response": ad.raw, "claim_response": aclaim.raw})
					} else {
						run.Count("unbound_requests_left_owner_intact", 1)
					}
					// and the name is still taken for everybody else
					ag := c19Command(cl[other], packet.HTTPDomainCreate, packet.HTTPDomainCreateRequest{TargetURL: target(other), Subdomain: sub, BaseDomain: base})
					if ag.answered && ag.Success {
						run.Violation("C19:cmd|double-owner|store="+kind, map[string]any{"name": full, "owner": cl[win].ClientID, "second": cl[other].ClientID, "after_unbound_requester": rq, "response": ag.raw})
						break
					}
				}
			}
			// a second claim while owned must be refused
			again := c19Command(cl[other], packet.HTTPDomainCreate, packet.HTTPDomainCreateRequest{TargetURL: target(other), Subdomain: sub, BaseDomain: base})
			if again.answered && again.Success {
				run.Violation("C19:cmd|double-owner|store="+kind, map[string]any{"name": full, "owner": cl[win].ClientID, "second": cl[other].ClientID, "response": again.raw})
			} else if again.answered {
				run.Count("claims_refused_owned", 1)
			}
			// phase 3: the owner deletes; the name stops routing and is claimable again
			od := c19Command(cl[win], packet.HTTPDomainDelete, packet.HTTPDomainDeleteRequest{MappingID: outs[win].MappingID})
			if od.answered && od.Success {
				run.Count("owner_deletes_ok", 1)
				if c, tg, ok := owner(); ok {
					run.Violation("C19:cmd|routes-after-delete|store="+kind, map[string]any{"name": full, "routes_to_client": c, "target": tg})
				}
				re := c19Command(cl[other], packet.HTTPDomainCreate, packet.HTTPDomainCreateRequest{TargetURL: target(other), Subdomain: sub, BaseDomain: base})
				switch {
				case re.answered && !re.Success:
					run.Violation("C19:cmd|not-reclaimable|store="+kind, map[string]any{"name": full, "response": re.raw})
				case re.answered:
					run.Count("reclaims_ok", 1)
					if c, tg, ok := owner(); ok && (c != cl[other].ClientID || tg != wantTarget(other)) {
						run.Violation("C19:cmd|misroute|store="+kind, map[string]any{"name": full, "owner": cl[other].ClientID, "routes_to_client": c, "target": tg})
					}
				}
				fp += "|reclaimed"
			}
			run.Distinct(fp)
			if round == 0 {
				run.Sample(map[string]any{"store": kind, "g": g, "name": full, "create_responses": c19Raw(outs)})
			}
			n.Close()
			cancel()
		}
	}
	run.Floor("rounds_single_winner", int64(run.Pick(250, 2500)))
	run.Floor("nonowner_deletes_refused", 200)
	run.Floor("claims_refused_owned", 200)
	run.Floor("reclaims_ok", 200)
	run.Floor("unbound_requests_left_owner_intact", 100)
	run.Floor("refused_claimant_deletes_left_owner_intact", 300)
}

func c19Raw(outs []c19CmdOut) []string {
	var r []string
	for _, o := range outs {
		s := o.raw
		if len(s) > 300 {
			s = s[:300]
		}
		r = append(r, strings.TrimSpace(s))
	}
	return r
}

// ---------------------------------------------------------------- announced expiry

type c19ExpSess struct {
	mu   sync.Mutex
	last int64
	n    int
}

type c19ExpConn struct{}

func (c19ExpConn) GetConnID() string     { return "c19-exp" }
func (c19ExpConn) GetRemoteAddr() string { return "203.0.113.7:5000" }

func (s *c19ExpSess) GetControlConnectionInterface(int64) httpservice.ControlConnectionAccessor {
	return c19ExpConn{}
}
func (s *c19ExpSess) BroadcastConfigPush(int64, string) error { return nil }
func (s *c19ExpSess) GetNodeID() string                       { return "c19-exp-node" }
func (s *c19ExpSess) SendHTTPProxyRequest(clientID int64, req *httptypes.HTTPProxyRequest) (*httptypes.HTTPProxyResponse, error) {
	s.mu.Lock()
	s.last, s.n = clientID, s.n+1
	s.mu.Unlock()
	return &httptypes.HTTPProxyResponse{RequestID: req.RequestID, StatusCode: 200, Headers: map[string]string{}, Body: []byte("ok")}, nil
}
func (s *c19ExpSess) RequestTunnelForHTTP(int64, string, string, string) (httpservice.TunnelConnectionInterface, error) {
	return nil, fmt.Errorf("c19: tunnel mode not driven")
}
func (s *c19ExpSess) NotifyClientUpdate(int64) {}
func (s *c19ExpSess) count() int {
	s.mu.Lock()
	defer s.mu.Unlock()
	return s.n
}

// TestVerifC19CommandsExpiry: "expired mappings do not route" at the command boundary.
// The create reply ANNOUNCES the end of the mapping (expires_at). Whatever optional
// fields the request carried (description of 0 … 64 KiB), a request arriving certainly
// after that instant must be rejected. Interval rule: the repository compares
// time.Now().Unix() > expires_at, so "certainly after" = the harness' own clock reads
// ≥ expires_at + 2 s before the request is made. The wait is capped (watchdog →
// inconclusive).
func TestVerifC19CommandsExpiry(t *testing.T) {
	vk.Quiet()
	run := vk.Start(t, "C19", "commands-expiry")
	defer run.Finish()
	run.Rule("on a fresh mini-server per store kind one client sends HTTPDomainCreate with mapping_ttl=1 s and a description of 0, 12, 255, 256, 257, 1024, 4096 and 65536 bytes (distinct names); every reply that announces expires_at creates the obligation: routed while certainly before it is optional, rejected once the clock is certainly past it (real ServeHTTP on the node's repository); distinct = store|description size|announced?|routes before|routes after")
	sizes := []int{0, 12, 255, 256, 257, 1024, 4096, 65536}
	type made struct {
		kind, full string
		size       int
		exp        time.Time
		mod        *domainproxy.DomainProxyModule
		sess       *c19ExpSess
		before     bool
	}
	var all []*made
	var latest time.Time
	var closers []func()
	defer func() {
		for _, f := range closers {
			f()
		}
	}()
	get := func(m *made, host string) bool {
		req := httptest.NewRequest("GET", "http://placeholder.invalid/x", nil)
		req.Host = host
		rec := httptest.NewRecorder()
		n0 := m.sess.count()
		m.mod.ServeHTTP(rec, req)
		return m.sess.count() > n0 || rec.Code == http.StatusOK
	}
	for _, kind := range []string{"hybrid-mem", "memory"} {
		ctx, cancel := context.WithCancel(context.Background())
		var st storage.Storage
		if kind == "memory" {
			st = storage.NewMemoryStorage(ctx)
		} else {
			cache, _ := storage.NewMemoryStorage(ctx).(storage.CacheStorage)
			st = storage.NewHybridStorageWithSharedCache(ctx, cache, nil, nil, storage.DefaultHybridConfig())
		}
		n := newMiniNode(t, miniOpts{Store: st})
		closers = append(closers, func() { n.Close(); cancel() })
		sess := &c19ExpSess{}
		mod := domainproxy.NewDomainProxyModule(ctx, &httpservice.DomainProxyModuleConfig{Enabled: true, BaseDomains: []string{"tunnox.net"}, CommandModeThreshold: 1 << 20, RequestTimeout: 2 * time.Second})
		mod.SetDependencies(&httpservice.ModuleDependencies{HTTPDomainMappingRepo: n.Domains, SessionMgr: sess})
		cl := n.NewClient("198.51.100.77:41000")
		for i, size := range sizes {
			sub := fmt.Sprintf("ttl%d", i)
			run.Case("expiry|"+kind, map[string]any{"description_bytes": size, "name": sub})
			out := c19Command(cl, packet.HTTPDomainCreate, packet.HTTPDomainCreateRequest{
				TargetURL: "http://127.0.0.1:8080", Subdomain: sub, BaseDomain: "tunnox.net", MappingTTL: 1,
				Description: strings.Repeat("d", size)})
			run.Eval(1)
			run.Count("creates_with_ttl", 1)
			if !out.answered || !out.Success {
				run.Count("creates_refused_or_unanswered", 1) // no claim, no obligation
				continue
			}
			var full struct {
				ExpiresAt string `json:"expires_at"`
			}
			raw := out.raw
			var env struct {
				Data json.RawMessage `json:"data"`
			}
			if json.Unmarshal([]byte(raw), &env) == nil && len(env.Data) > 0 {
				d := []byte(env.Data)
				var str string
				if json.Unmarshal(d, &str) == nil {
					d = []byte(str)
				}
				_ = json.Unmarshal(d, &full)
			}
			exp, err := time.Parse(time.RFC3339, full.ExpiresAt)
			if full.ExpiresAt == "" || err != nil {
				run.Count("creates_without_announced_expiry", 1) // nothing was promised
				continue
			}
			run.Count("creates_with_announced_expiry", 1)
			m := &made{kind: kind, full: sub + ".tunnox.net", size: size, exp: exp, mod: mod, sess: sess}
			if time.Now().Unix() < exp.Unix() { // certainly before the end
				m.before = get(m, m.full)
				if m.before {
					run.Count("routed_before_expiry", 1)
				}
			}
			all = append(all, m)
			if exp.After(latest) {
				latest = exp
			}
		}
	}
	// wait until the clock is certainly past every announced instant
	deadline := time.Now().Add(15 * time.Second)
	for time.Now().Unix() < latest.Unix()+2 {
		if time.Now().After(deadline) {
			run.Count("watchdog", 1)
			run.Floor("lookups_after_expiry", 1)
			return
		}
		time.Sleep(50 * time.Millisecond)
	}
	for _, m := range all {
		for _, h := range []string{m.full, m.full + ":80"} {
			after := get(m, h)
			run.Count("lookups_after_expiry", 1)
			run.Distinct(fmt.Sprintf("%s|%d|before=%v|after=%v", m.kind, m.size, m.before, after))
			if after {
				run.Violation(fmt.Sprintf("C19:cmd|expired-routes|description_bytes=%d", m.size), map[string]any{
					"store": m.kind, "name": m.full, "host": h, "announced_expires_at": m.exp.Format(time.RFC3339), "asked_at": time.Now().Format(time.RFC3339Nano),
					"description_bytes": m.size, "mapping_ttl_s": 1})
			}
		}
	}
	run.Sample(map[string]any{"sizes": sizes, "mappings": len(all)})
	run.Floor("creates_with_announced_expiry", 12)
	run.Floor("lookups_after_expiry", 24)
	run.Floor("routed_before_expiry", 1)
}
