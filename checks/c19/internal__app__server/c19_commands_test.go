//go:build verif && verif_c19

package server

import (
	"context"
	"encoding/json"
	"fmt"
	"strings"
	"sync"
	"testing"
	"time"

	"tunnox-core/internal/core/storage"
	"tunnox-core/internal/packet"
	vk "tunnox-core/internal/verifkit"
)

// C19 at the command boundary: authenticated clients send HTTPDomainCreate /
// HTTPDomainDelete over their control connection of the real mini-server (real
// command registry, real handlers, real repository adapter, hybrid storage as in
// production). The identity used for ownership must be the connection's, so a client
// can never delete another client's mapping by naming its id, and concurrent claims of
// one name through different connections have at most one winner.

type c19CmdOut struct {
	Success   bool   `json:"success"`
	MappingID string `json:"mapping_id"`
	Full      string `json:"full_domain"`
	Error     string `json:"error"`
	raw       string
	answered  bool
}

var c19CmdSeq int64
var c19CmdMu sync.Mutex

func c19Command(c *miniClient, ct packet.CommandType, body any) c19CmdOut {
	return c19CommandT(c, ct, body, 5*time.Second)
}

func c19CommandT(c *miniClient, ct packet.CommandType, body any, wait time.Duration) c19CmdOut {
	b, _ := json.Marshal(body)
	c19CmdMu.Lock()
	c19CmdSeq++
	id := fmt.Sprintf("c19-%d", c19CmdSeq)
	c19CmdMu.Unlock()
	resp, _, _ := c.Command(&packet.CommandPacket{CommandType: ct, CommandId: id, CommandBody: string(b)}, wait)
	var out c19CmdOut
	if resp == nil {
		return out
	}
	out.answered = true
	out.raw = resp.CommandBody
	// the body is either the handler's JSON or an envelope {success,data,...}
	var env struct {
		Success *bool           `json:"success"`
		Data    json.RawMessage `json:"data"`
		Error   string          `json:"error"`
	}
	if json.Unmarshal([]byte(resp.CommandBody), &env) == nil && len(env.Data) > 0 && string(env.Data) != "null" {
		data := []byte(env.Data)
		var asString string
		if json.Unmarshal(data, &asString) == nil {
			data = []byte(asString)
		}
		_ = json.Unmarshal(data, &out)
		if env.Success != nil && !*env.Success {
			out.Success = false
		}
		if out.Error == "" {
			out.Error = env.Error
		}
		return out
	}
	_ = json.Unmarshal([]byte(resp.CommandBody), &out)
	return out
}

func TestVerifC19Commands(t *testing.T) {
	vk.Quiet()
	run := vk.Start(t, "C19", "commands")
	defer run.Finish()
	run.Rule("rounds on a fresh mini-server (hybrid(memory) as in production, and plain memory): G∈[2,4] authenticated clients claim the SAME name concurrently through their own control connections, a non-owner names the winner's mapping id in HTTPDomainDelete, the owner deletes, another client re-claims; after every phase the repository is asked who owns the name; distinct = store|G|winner|phase outcomes")
	rnd := run.Rand("commands")
	rounds := run.Pick(150, 1500)
	for _, kind := range []string{"hybrid-mem", "memory"} {
		for round := 0; round < rounds && run.Violations() < 20; round++ {
			ctx, cancel := context.WithCancel(context.Background())
			var st storage.Storage
			if kind == "memory" {
				st = storage.NewMemoryStorage(ctx)
			} else {
				cache, ok := storage.NewMemoryStorage(ctx).(storage.CacheStorage)
				if !ok {
					t.Fatalf("[setup failed] memory storage is not a CacheStorage")
				}
				st = storage.NewHybridStorageWithSharedCache(ctx, cache, nil, nil, storage.DefaultHybridConfig())
			}
			n := newMiniNode(t, miniOpts{Store: st})
			g := 2 + rnd.Intn(3)
			sub := []string{"app", "api", "my-site"}[rnd.Intn(3)]
			base := "tunnox.net"
			full := sub + "." + base
			run.Case("commands-round", map[string]any{"store": kind, "round": round, "g": g, "name": full})
			cl := make([]*miniClient, g)
			for i := range cl {
				cl[i] = n.NewClient(fmt.Sprintf("198.51.100.%d:%d", 10+i, 40000+i))
			}
			owner := func() (int64, string, bool) {
				m, err := n.Domains.LookupByDomain(context.Background(), full)
				if err != nil || m == nil {
					return 0, "", false
				}
				return m.ClientID, fmt.Sprintf("%s:%d", m.TargetHost, m.TargetPort), true
			}
			target := func(i int) string { return fmt.Sprintf("http://c%d.lan:%d", i, 3000+i) }
			wantTarget := func(i int) string { return fmt.Sprintf("c%d.lan:%d", i, 3000+i) }

			// phase 1: concurrent claims of one name
			outs := make([]c19CmdOut, g)
			var wg sync.WaitGroup
			for i := range cl {
				i := i
				wg.Add(1)
				go func() {
					defer wg.Done()
					outs[i] = c19Command(cl[i], packet.HTTPDomainCreate, packet.HTTPDomainCreateRequest{TargetURL: target(i), Subdomain: sub, BaseDomain: base})
				}()
			}
			wg.Wait()
			run.Eval(1)
			win, winners, unanswered := -1, 0, 0
			for i, o := range outs {
				if !o.answered {
					unanswered++
				}
				if o.Success && o.MappingID != "" {
					winners++
					win = i
				}
			}
			if unanswered > 0 {
				run.Count("watchdog_unanswered", int64(unanswered))
				n.Close()
				cancel()
				continue
			}
			run.Count("claims", int64(g))
			fp := fmt.Sprintf("%s|g=%d|win=%d", kind, g, win)
			if winners > 1 {
				run.Violation("C19:cmd|double-owner|store="+kind, map[string]any{"name": full, "responses": c19Raw(outs)})
			}
			if winners != 1 {
				if winners == 0 {
					run.Count("rounds_no_winner", 1)
				}
				n.Close()
				cancel()
				continue
			}
			run.Count("rounds_single_winner", 1)
			if c, tg, ok := owner(); ok && (c != cl[win].ClientID || tg != wantTarget(win)) {
				run.Violation("C19:cmd|misroute|store="+kind, map[string]any{"name": full, "winner_client": cl[win].ClientID, "routes_to_client": c, "target": tg})
			} else if ok {
				run.Count("routes_to_winner", 1)
			}
			// phase 2: a non-owner names the winner's mapping id
			other := (win + 1) % g
			d := c19Command(cl[other], packet.HTTPDomainDelete, packet.HTTPDomainDeleteRequest{MappingID: outs[win].MappingID})
			if d.answered && d.Success {
				run.Violation("C19:cmd|non-owner-delete-succeeded|store="+kind, map[string]any{"name": full, "owner": cl[win].ClientID, "deleter": cl[other].ClientID, "response": d.raw})
			} else if d.answered {
				run.Count("nonowner_deletes_refused", 1)
			}
			if c, _, ok := owner(); !ok || c != cl[win].ClientID {
				if d.answered && !d.Success {
					run.Violation("C19:cmd|refused-delete-changed-owner|store="+kind, map[string]any{"name": full, "owner": cl[win].ClientID, "now": c, "routes": ok})
				}
			}
			// phase 2b: requesters with NO bound client (a connection that never
			// authenticated, and one that only asked for a challenge for the owner's id)
			// name the winner's mapping id / claim the name: nothing may change. The
			// verdict is the EFFECT (who owns the name afterwards), not the reply — an
			// unanswered command (short wait) is fine.
			if round%3 == 0 {
				for ri, rq := range []string{"unauthenticated", "challenge-only-as-owner"} {
					ac, err := n.Connect(fmt.Sprintf("198.51.100.%d:%d", 200+ri, 45000+ri))
					if err != nil || ac == nil {
						run.Count("unbound_connect_failed", 1)
						continue
					}
					if rq == "challenge-only-as-owner" {
						_, _ = ac.Phase1(cl[win].ClientID, "control")
					}
					ad := c19CommandT(ac, packet.HTTPDomainDelete, packet.HTTPDomainDeleteRequest{MappingID: outs[win].MappingID}, 150*time.Millisecond)
					aclaim := c19CommandT(ac, packet.HTTPDomainCreate, packet.HTTPDomainCreateRequest{TargetURL: "http://evil.lan:6666", Subdomain: sub, BaseDomain: base}, 150*time.Millisecond)
					run.Count("unbound_requests", 2)
					if ad.answered {
						run.Count("unbound_requests_answered", 1)
					}
					c, tg, ok := owner()
					if ad.answered && ad.Success {
						run.Violation("C19:cmd|non-owner-delete-succeeded|requester=unbound|store="+kind, map[string]any{"name": full, "requester": rq, "owner": cl[win].ClientID, "response": ad.raw, "still_routes": ok})
					}
					if aclaim.answered && aclaim.Success {
						run.Violation("C19:cmd|double-owner|requester=unbound|store="+kind, map[string]any{"name": full, "requester": rq, "owner": cl[win].ClientID, "response": aclaim.raw})
					}
					if !ok || c != cl[win].ClientID || tg != wantTarget(win) {
						run.Violation("C19:cmd|unbound-requester-changed-owner|store="+kind, map[string]any{"name": full, "requester": rq, "owner": cl[win].ClientID, "routes": ok, "now_client": c, "now_target": tg, "delete_response": ad.raw, "claim_response": aclaim.raw})
					} else {
						run.Count("unbound_requests_left_owner_intact", 1)
					}
					// and the name is still taken for everybody else
					ag := c19Command(cl[other], packet.HTTPDomainCreate, packet.HTTPDomainCreateRequest{TargetURL: target(other), Subdomain: sub, BaseDomain: base})
					if ag.answered && ag.Success {
						run.Violation("C19:cmd|double-owner|store="+kind, map[string]any{"name": full, "owner": cl[win].ClientID, "second": cl[other].ClientID, "after_unbound_requester": rq, "response": ag.raw})
						break
					}
				}
			}
			// a second claim while owned must be refused
			again := c19Command(cl[other], packet.HTTPDomainCreate, packet.HTTPDomainCreateRequest{TargetURL: target(other), Subdomain: sub, BaseDomain: base})
			if again.answered && again.Success {
				run.Violation("C19:cmd|double-owner|store="+kind, map[string]any{"name": full, "owner": cl[win].ClientID, "second": cl[other].ClientID, "response": again.raw})
			} else if again.answered {
				run.Count("claims_refused_owned", 1)
			}
			// phase 3: the owner deletes; the name stops routing and is claimable again
			od := c19Command(cl[win], packet.HTTPDomainDelete, packet.HTTPDomainDeleteRequest{MappingID: outs[win].MappingID})
			if od.answered && od.Success {
				run.Count("owner_deletes_ok", 1)
				if c, tg, ok := owner(); ok {
					run.Violation("C19:cmd|routes-after-delete|store="+kind, map[string]any{"name": full, "routes_to_client": c, "target": tg})
				}
				re := c19Command(cl[other], packet.HTTPDomainCreate, packet.HTTPDomainCreateRequest{TargetURL: target(other), Subdomain: sub, BaseDomain: base})
				switch {
				case re.answered && !re.Success:
					run.Violation("C19:cmd|not-reclaimable|store="+kind, map[string]any{"name": full, "response": re.raw})
				case re.answered:
					run.Count("reclaims_ok", 1)
					if c, tg, ok := owner(); ok && (c != cl[other].ClientID || tg != wantTarget(other)) {
						run.Violation("C19:cmd|misroute|store="+kind, map[string]any{"name": full, "owner": cl[other].ClientID, "routes_to_client": c, "target": tg})
					}
				}
				fp += "|reclaimed"
			}
			run.Distinct(fp)
			if round == 0 {
				run.Sample(map[string]any{"store": kind, "g": g, "name": full, "create_responses": c19Raw(outs)})
			}
			n.Close()
			cancel()
		}
	}
	run.Floor("rounds_single_winner", int64(run.Pick(250, 2500)))
	run.Floor("nonowner_deletes_refused", 200)
	run.Floor("claims_refused_owned", 200)
	run.Floor("reclaims_ok", 200)
	run.Floor("unbound_requests_left_owner_intact", 100)
}

func c19Raw(outs []c19CmdOut) []string {
	var r []string
	for _, o := range outs {
		s := o.raw
		if len(s) > 300 {
			s = s[:300]
		}
		r = append(r, strings.TrimSpace(s))
	}
	return r
}
